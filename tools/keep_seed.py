#!/usr/bin/env python3
"""tools/keep_seed.py <seed id> <dir name> <caught_by or ''> <note>: copy a confirmed seeded change into /verif/seeded/<dir>/."""
import json, os, shutil, sys
sid, name, caught, note = sys.argv[1], sys.argv[2], sys.argv[3], sys.argv[4]
src = f"/tmp/seed/out-{sid}"
dst = f"/verif/seeded/{name}"
os.makedirs(dst, exist_ok=True)
shutil.copy(f"{src}/patch.diff", f"{dst}/patch.diff")
for f in os.listdir(src):
    if f.startswith("demo"):
        p = os.path.join(src, f)
        if os.path.isdir(p):
            shutil.copytree(p, os.path.join(dst, f), dirs_exist_ok=True)
        else:
            # keep Go tests out of the harness build by storing them as .txt
            shutil.copy(p, os.path.join(dst, f + ".txt") if f.endswith(".go") else os.path.join(dst, f))
m = json.load(open(f"{src}/meta.json"))
vlog = ""
try:
    vlog = open(f"/tmp/seed/verify-batch.log").read()
except Exception:
    pass
# keep Go sources (demo programs, go.mod) out of the /verif module's package tree
for root, _, files in os.walk(dst):
    for f in files:
        if f.endswith(".go") or f in ("go.mod", "go.sum"):
            os.rename(os.path.join(root, f), os.path.join(root, f + ".txt"))
meta = {
    "property": m.get("property", sid),
    "breaks": m.get("summary"),
    "needs": m.get("needs"),
    "files_changed": m.get("files_changed"),
    "demo": m.get("demo"),
    "confirmed_by_me": {
        "ran": f"tools/verify_seed.sh {sid} ... (demo with the patch: FAIL; demo without it: PASS; unedited suite `go test -vet=off -count=1 ./...` with the patch: PASS)",
        "result": [l for l in vlog.splitlines() if l.startswith(sid + ":")],
    },
    "checks_run_against_it": f"tools/mutant.sh seeded/{name}/patch.diff <check>",
    "caught_by": caught.split(",") if caught else [],
    "note": note,
}
json.dump(meta, open(f"{dst}/meta.json", "w"), indent=1)
print("kept", dst)
