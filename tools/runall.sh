#!/bin/sh
# tools/runall.sh [tier]: run every check registered in MANIFEST.json once (sequentially) and summarise.
tier="${1:-quick}"
cd /verif
for id in $(python3 -c "import json; print(' '.join(c['property_id'] for c in json.load(open('MANIFEST.json'))['checks']))"); do
  s=$(date +%s)
  ./bin/vcheck $id $tier > .build/run-$id.log 2>&1
  rc=$?
  echo "$id exit=$rc $(( $(date +%s) - s ))s $(tail -1 .build/run-$id.log | cut -c1-160)"
done
