#!/bin/sh
# tools/try_seed.sh <seed id> [check ids...]: confirm a sub-agent's change in its own worktree
# (/tmp/seed/wt-<id>, change applied) with tools/verify_seed.sh, then run the named checks (default: the
# property's own check) against that worktree through VERIF_REPO - /repo itself is never touched.
sid="$1"; shift
checks="$*"; [ -z "$checks" ] && checks=$(echo "$sid" | cut -c1-3)
out=/tmp/seed/out-$sid; wt=/tmp/seed/wt-$sid
cd /verif
if [ ! -f /tmp/seed/verified-$sid ]; then
  set -- $(python3 -c "
import json; m=json.load(open('$out/meta.json')); d=m['demo']; print(d['dest'], d['run'], d['package_dir'])")
  sh tools/verify_seed.sh "$sid" "$1" "$2" "$3" | tee /tmp/seed/verified-$sid
fi
for c in $checks; do
  s=$(date +%s)
  VERIF_REPO=$wt VERIF_EVIDENCE_DIR=/verif/.build/mutant-evidence-$sid ./bin/vcheck $c quick > .build/seed-$sid-$c.log 2>&1
  echo "$sid $c: exit=$? violations=$(grep -c '^VIOLATION' .build/seed-$sid-$c.log) $(( $(date +%s) - s ))s | $(grep -m1 '^violation' .build/seed-$sid-$c.log | cut -c1-300)"
done
