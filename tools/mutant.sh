#!/bin/sh
# tools/mutant.sh <patch.diff> <check id> [tier]: apply a seeded change to /repo,
# run one check against it, and undo the change straight afterwards.
set -u
patch="$1"; id="$2"; tier="${3:-quick}"
cd /verif
git -C /repo diff --quiet || { echo "mutant.sh: /repo has uncommitted changes"; exit 2; }
git -C /repo apply "$patch" || { echo "mutant.sh: patch does not apply"; exit 2; }
VERIF_EVIDENCE_DIR=/verif/.build/mutant-evidence ./bin/vcheck "$id" "$tier" > /verif/.build/mutant-$id.log 2>&1
rc=$?
git -C /repo checkout -- .
git -C /repo status --short | grep -v '^??' 
echo "exit=$rc"; grep -c '^VIOLATION' /verif/.build/mutant-$id.log; grep '^violation' /verif/.build/mutant-$id.log | head -3 | cut -c1-400; tail -1 /verif/.build/mutant-$id.log
exit 0
