#!/bin/sh
# tools/run_seeds.sh: apply every kept sub-agent change (seeded/*/patch.diff) to /repo in turn and run
# the first check its meta.json names in caught_by; every line must say exit=1.
cd /verif
for d in seeded/*/; do
  c=$(python3 -c "import json,sys; m=json.load(open('$d/meta.json')); print((m.get('caught_by') or [''])[0])")
  [ -z "$c" ] && { echo "$d: no caught_by"; continue; }
  git -C /repo diff --quiet || { echo "repo dirty"; exit 2; }
  if ! git -C /repo apply "/verif/$d/patch.diff" 2>/dev/null; then echo "$d $c: patch does not apply"; continue; fi
  VERIF_EVIDENCE_DIR=/verif/.build/mutant-evidence ./bin/vcheck $c quick > .build/seed-$(basename $d)-$c.log 2>&1
  rc=$?
  git -C /repo checkout -- .
  echo "$(basename $d) $c: exit=$rc violations=$(grep -c '^VIOLATION' .build/seed-$(basename $d)-$c.log)"
done
