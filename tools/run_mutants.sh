#!/bin/sh
# tools/run_mutants.sh: re-introduce each repaired defect (reverse patch of a fix: commit)
# and run the checks that should report it.  Prints one line per (mutant, check).
cd /verif
grep -v '^#' mutants/MAP | while read pfx checks; do
  f=$(ls mutants/$pfx-*.diff 2>/dev/null | head -1)
  [ -z "$f" ] && { echo "$pfx: no patch"; continue; }
  for c in $checks; do
    git -C /repo diff --quiet || { echo "repo dirty"; exit 2; }
    if ! git -C /repo apply "/verif/$f" 2>/dev/null; then echo "$pfx $c: patch does not apply"; continue; fi
    VERIF_EVIDENCE_DIR=/verif/.build/mutant-evidence ./bin/vcheck $c quick > .build/mut-$pfx-$c.log 2>&1
    rc=$?
    git -C /repo checkout -- .
    echo "$pfx $c: exit=$rc violations=$(grep -c '^VIOLATION' .build/mut-$pfx-$c.log)"
  done
done
