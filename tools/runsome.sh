#!/bin/sh
# tools/runsome.sh <tier> <ids...>: run the named checks once (sequentially) and summarise.
tier="$1"; shift
cd /verif
for id in "$@"; do
  s=$(date +%s)
  ./bin/vcheck $id $tier > .build/run-$id.log 2>&1
  rc=$?
  echo "$id exit=$rc $(( $(date +%s) - s ))s $(tail -1 .build/run-$id.log | cut -c1-160)"
done
