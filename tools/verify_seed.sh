#!/bin/sh
# tools/verify_seed.sh <id> <demo dest relative to worktree> <go test -run pattern> <package>
# Confirms a sub-agent's seeded change: demo fails with it, passes without it,
# and the unedited suite passes with it.
id="$1"; dest="$2"; pat="$3"; pkg="$4"
wt=/tmp/seed/wt-$id; out=/tmp/seed/out-$id
export GOFLAGS=-mod=mod GOPROXY=off
cd "$wt" || exit 2
git diff --quiet && { echo "$id: worktree has no change applied"; exit 2; }
cp "$out/demo_test.go" "$wt/$dest"
timeout 600 go test -vet=off -count=1 -timeout 120s -run "$pat" "$pkg" > /tmp/seed/verify-$id-with.log 2>&1; with=$?
# (git stash is shared between worktrees: reverse-apply the patch instead)
git apply -R "$out/patch.diff" || { echo "$id: cannot reverse patch"; exit 2; }
timeout 600 go test -vet=off -count=1 -timeout 120s -run "$pat" "$pkg" > /tmp/seed/verify-$id-without.log 2>&1; without=$?
git apply "$out/patch.diff"
rm -f "$wt/$dest"
timeout 1500 go test -vet=off -count=1 ./... > /tmp/seed/verify-$id-suite.log 2>&1; suite=$?
echo "$id: demo_with_patch_exit=$with demo_without_patch_exit=$without suite_with_patch_exit=$suite"
