/* libwebp arbiter (DESIGN.md 2.5): a tiny server around the system libwebp
 * 1.2.4 (no headers installed: prototypes declared by hand).  Protocol on
 * stdin/stdout:   request  "<mode> <len>\n" + len bytes   (mode Y: YUV planes, R: RGBA)
 *                 reply    "<ok> <w> <h> <n>\n" + n bytes
 * It is an arbiter, never a dependency: checks run without it. */
#include <stdio.h>
#include <stdlib.h>
#include <string.h>
#include <stdint.h>

uint8_t* WebPDecodeYUV(const uint8_t* data, size_t size, int* w, int* h, uint8_t** u, uint8_t** v, int* stride, int* uv_stride);
uint8_t* WebPDecodeRGBA(const uint8_t* data, size_t size, int* w, int* h);
void WebPFree(void* p);

int main(void) {
  char line[128];
  while (fgets(line, sizeof line, stdin)) {
    char mode; long len;
    if (sscanf(line, "%c %ld", &mode, &len) != 2 || len < 0 || len > (1L << 28)) return 2;
    uint8_t* buf = malloc(len ? len : 1);
    if (fread(buf, 1, len, stdin) != (size_t)len) return 2;
    int w = 0, h = 0;
    if (mode == 'Y') {
      uint8_t *u = 0, *v = 0; int ys = 0, uvs = 0;
      uint8_t* y = WebPDecodeYUV(buf, len, &w, &h, &u, &v, &ys, &uvs);
      if (!y) { printf("0 0 0 0\n"); }
      else {
        int cw = (w + 1) / 2, ch = (h + 1) / 2;
        printf("1 %d %d %ld\n", w, h, (long)w * h + 2L * cw * ch);
        for (int j = 0; j < h; j++) fwrite(y + (size_t)j * ys, 1, w, stdout);
        for (int j = 0; j < ch; j++) fwrite(u + (size_t)j * uvs, 1, cw, stdout);
        for (int j = 0; j < ch; j++) fwrite(v + (size_t)j * uvs, 1, cw, stdout);
        WebPFree(y);
      }
    } else {
      uint8_t* p = WebPDecodeRGBA(buf, len, &w, &h);
      if (!p) { printf("0 0 0 0\n"); }
      else { printf("1 %d %d %ld\n", w, h, 4L * w * h); fwrite(p, 1, 4L * w * h, stdout); WebPFree(p); }
    }
    fflush(stdout);
    free(buf);
  }
  return 0;
}
