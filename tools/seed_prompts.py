#!/usr/bin/env python3
"""tools/seed_prompts.py <suffix> <focus.json>: create one scratch worktree of /repo and one prompt file per
property listed in focus.json ({"C01": "where to place the change", ...}) under /tmp/seed.  The prompt
contains the property text and the focus hint only - nothing from /verif."""
import json, os, subprocess, sys
suffix, focus = sys.argv[1], json.load(open(sys.argv[2]))
TMPL = '''You are helping to evaluate a verification harness for the Go library deepteams/webp (pure-Go WebP encoder/decoder, a close port of libwebp). Your job is to play a careless-but-plausible maintainer: produce ONE realistic code change that BREAKS the semantic property below, while the module still compiles and the repository's existing test suite still passes unchanged.

Your private scratch git worktree of the repository is {wt} (work ONLY there; never touch /repo or /verif, never read /verif). Put your deliverables in {out} (create it).

Environment: no network. In every shell call first run: export GOFLAGS=-mod=mod GOPROXY=off   (do NOT set GOSUMDB). Run go inside the worktree. The full suite is: cd {wt} && go test -vet=off -count=1 ./...   (takes ~1-3 minutes; the machine is shared and busy, so be patient, use generous timeouts, and run the FULL suite only once or twice - use package-level runs while iterating).

THE PROPERTY ({pid}) - {title}
Statement: {statement}
Quantified over: {quant}
Files the property is anchored in: {files}

What kind of change is wanted
- A change a real maintainer could plausibly commit (an "optimisation", a "simplification", a refactor, a fast path, a reuse of a buffer, a reordering, a changed bound) - not sabotage that is obviously absurd, and not a change whose effect ordinary use would expose at once.
- It must need something SPECIFIC to manifest: a particular interleaving, a fault or truncation at a particular point, a multi-step sequence of operations, an unusual-but-valid input, a particular option combination, or two cooperating sites that each look fine alone.
- The violation must be observable the way the property states it (through the public API the statement names), not only by calling internal functions directly.
- For variety (earlier exercises of this kind already covered other parts of the code), place the change in or around: {focus}. Read that code carefully first and choose a site where the existing tests give no protection.
- Do not edit, add, delete or rename any existing test file. Do not touch go.mod / go.sum.

Deliverables in {out}:
1. patch.diff  - `git -C {wt} diff` of your change (source files only; it must apply to a clean checkout with `git apply`).
2. demo_test.go - ONE Go test file (a plain `go test` test using only the standard library and this module; name the test function TestSeed{sid}) that FAILS with your change applied and PASSES on the unchanged tree, and that demonstrates the property violation as the property states it (not merely "bytes changed" unless the property is about bytes). State at the top in a comment which package directory it must be copied into. It must be deterministic (if the property is about concurrency/scheduling, make the demonstration as reliable as you can, e.g. many iterations, and say how reliable it is).
3. meta.json with keys: "property" ("{pid}"), "summary" (what was changed and why it breaks the property), "needs" (exactly what is required for it to manifest), "files_changed" (list), "demo": {{"dest": "<file name relative to the worktree root where demo_test.go must be copied, e.g. zz_seed_test.go or internal/lossy/zz_seed_test.go>", "package_dir": "<./ or ./internal/lossy ...>", "run": "TestSeed{sid}"}}.

Before you finish, verify ALL of this yourself and report the results honestly: (a) with the change, the full existing suite passes (show the tail of the output); (b) with the change, your demo test fails; (c) on the unchanged tree (`git apply -R patch.diff`, never `git stash`: the stash is shared between worktrees), your demo test passes. Leave the worktree WITH your change applied and WITHOUT the demo file in it. If your first idea turns out to be caught by an existing test, pick another site. Final answer: a short description of the change, what it needs to manifest, and the three verification results.
'''
os.makedirs('/tmp/seed', exist_ok=True)
for l in open('/verif/properties.jsonl'):
    p = json.loads(l); pid = p['id']
    if pid not in focus: continue
    sid = pid + suffix
    wt, out = f'/tmp/seed/wt-{sid}', f'/tmp/seed/out-{sid}'
    if not os.path.isdir(wt):
        subprocess.run(['git', '-C', '/repo', 'worktree', 'add', '--detach', wt, 'HEAD'], check=True, capture_output=True)
    open(f'/tmp/seed/prompt-{sid}.txt', 'w').write(TMPL.format(wt=wt, out=out, pid=pid, sid=sid, title=p['title'], statement=p['statement'], quant=p['quantifier']['text'], files=', '.join(p['anchors']['files']), focus=focus[pid]))
    print('prepared', sid)
