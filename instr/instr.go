// Package instr rewrites the current working tree of deepteams/webp into an
// instrumented copy plus a `go build -overlay` file (DESIGN.md 2.1).  Nothing
// under the repository is modified.
//
//	R1  runtime.GOMAXPROCS(0)            -> vhook.Workers("<site>")
//	R2  import "sync" / "sync/atomic"    -> zzverif/vsync, zzverif/vatomic
//	    go f(args)                       -> evaluated in place, vsync.Go(closure)
//	    make(chan T,n) / send / range / close on local channels -> vsync.Chan[T]
//	R4  accessor files added to internal packages (see access.go)
//	R6  scheduling points before/after writes to package-level variables (globals.go)
package instr

import (
	"bytes"
	"fmt"
	"go/ast"
	"go/parser"
	"go/printer"
	"go/token"
	"os"
	"path/filepath"
	"sort"
	"strconv"
	"strings"
)

const Mod = "github.com/deepteams/webp"
const Z = Mod + "/internal/zzverif"

// Report of one instrumentation run.
// YieldFuncs names the functions at whose entry rewrite R3 inserts a
// scheduling point (vhook.Yield): the places where the row-pipelined encoder
// starts reading, and starts publishing, the context shared between rows.
// Without them a schedule can only switch at synchronisation operations, which
// cannot expose a missing wait (the unsynchronised access itself is the bug).
// A name that is not found is skipped and listed in the report.
var YieldFuncs = []string{"importBlockParallel", "exportParallel"}

type Report struct {
	Wrapped      []string `json:"wrapped_methods"`
	YieldPoints  []string `json:"yield_points"`
	YieldMissing []string `json:"yield_points_missing"`
	GlobalYields []string `json:"global_write_yield_points"`
	Files        []string `json:"files_rewritten"`
	WorkerSites  []string `json:"worker_sites"`
	GoStmts      int      `json:"go_statements"`
	ChanFuncs    []string `json:"chan_functions"`
	Unrewritten  []string `json:"unrewritten"`
	AccessorsOK  []string `json:"accessors"`
	AccessorsBad []string `json:"accessors_skipped"`
}

// skipDir reports directories that are not part of the library build.
func skipDir(rel string) bool {
	for _, p := range []string{"benchmark", "testc", "testdata", "libwebp", ".git", "internal/zzverif"} {
		if rel == p || strings.HasPrefix(rel, p+"/") {
			return true
		}
	}
	return false
}

// Rewrite instruments every non-test .go file under repo that needs it and
// writes the copies under outDir.  It returns overlay entries (repo path ->
// rewritten path).
func Rewrite(repo, outDir string, rep *Report) (map[string]string, error) {
	overlay := map[string]string{}
	globals := scanGlobals(repo)
	err := filepath.Walk(repo, func(p string, fi os.FileInfo, err error) error {
		if err != nil {
			return err
		}
		rel, _ := filepath.Rel(repo, p)
		if fi.IsDir() {
			if rel != "." && skipDir(rel) {
				return filepath.SkipDir
			}
			return nil
		}
		if !strings.HasSuffix(p, ".go") || strings.HasSuffix(p, "_test.go") {
			return nil
		}
		src, err := os.ReadFile(p)
		if err != nil {
			return err
		}
		out, changed, err := rewriteFile(rel, src, rep, globals[filepath.ToSlash(filepath.Dir(rel))])
		if err != nil {
			rep.Unrewritten = append(rep.Unrewritten, rel+": "+err.Error())
			return nil
		}
		if !changed {
			return nil
		}
		dst := filepath.Join(outDir, rel)
		if err := os.MkdirAll(filepath.Dir(dst), 0o755); err != nil {
			return err
		}
		if err := writeIfChanged(dst, out); err != nil {
			return err
		}
		overlay[p] = dst
		rep.Files = append(rep.Files, rel)
		return nil
	})
	for _, yn := range YieldFuncs {
		found := false
		for _, y := range rep.YieldPoints {
			if strings.HasSuffix(y, ":"+yn) || strings.HasSuffix(y, "."+yn) {
				found = true
			}
		}
		if !found {
			rep.YieldMissing = append(rep.YieldMissing, yn)
		}
	}
	sort.Strings(rep.Files)
	sort.Strings(rep.WorkerSites)
	return overlay, err
}

func writeIfChanged(dst string, data []byte) error {
	if old, err := os.ReadFile(dst); err == nil && bytes.Equal(old, data) {
		return nil
	}
	return os.WriteFile(dst, data, 0o644)
}

func rewriteFile(rel string, src []byte, rep *Report, gvars map[string]globalInfo) ([]byte, bool, error) {
	fset := token.NewFileSet()
	f, err := parser.ParseFile(fset, rel, src, parser.ParseComments)
	if err != nil {
		return nil, false, err
	}
	changed := false
	needHook := false
	syncName := ""
	// --- imports
	for _, im := range f.Imports {
		path, _ := strconv.Unquote(im.Path.Value)
		switch path {
		case "sync":
			name := "sync"
			if im.Name != nil {
				name = im.Name.Name
			}
			if name == "_" || name == "." {
				return nil, false, fmt.Errorf("unsupported import form of sync")
			}
			im.Path.Value = strconv.Quote(Z + "/vsync")
			im.Name = ast.NewIdent(name)
			syncName = name
			changed = true
		case "sync/atomic":
			name := "atomic"
			if im.Name != nil {
				name = im.Name.Name
			}
			if name == "_" || name == "." {
				return nil, false, fmt.Errorf("unsupported import form of sync/atomic")
			}
			im.Path.Value = strconv.Quote(Z + "/vatomic")
			im.Name = ast.NewIdent(name)
			changed = true
		}
	}
	runtimeName := ""
	for _, im := range f.Imports {
		if path, _ := strconv.Unquote(im.Path.Value); path == "runtime" {
			runtimeName = "runtime"
			if im.Name != nil {
				runtimeName = im.Name.Name
			}
		}
	}
	pkgDir := filepath.ToSlash(filepath.Dir(rel))
	if pkgDir == "." {
		pkgDir = "webp"
	}
	base := strings.TrimSuffix(filepath.Base(rel), ".go")

	hasGo := false
	ast.Inspect(f, func(n ast.Node) bool {
		if _, ok := n.(*ast.GoStmt); ok {
			hasGo = true
		}
		return true
	})
	goName := syncName
	if hasGo && goName == "" {
		goName = "vsyncgo"
	}

	gscope := &globalScope{vars: gvars, topLevel: map[*ast.ValueSpec]bool{}}
	for _, d := range f.Decls {
		if gd, ok := d.(*ast.GenDecl); ok && gd.Tok == token.VAR {
			for _, sp := range gd.Specs {
				gscope.topLevel[sp.(*ast.ValueSpec)] = true
			}
		}
	}
	for _, d := range f.Decls {
		fd, ok := d.(*ast.FuncDecl)
		if !ok || fd.Body == nil {
			continue
		}
		fname := fd.Name.Name
		if fd.Recv != nil && len(fd.Recv.List) == 1 {
			fname = recvName(fd.Recv.List[0].Type) + "." + fname
		}
		// R4: (*VP8Encoder).EncodeFrame() ([]byte, error) is renamed; the accessor
		// file supplies a wrapper that reports the reconstruction planes (C06).
		if fname == "VP8Encoder.EncodeFrame" && pkgDir == "internal/lossy" && (fd.Type.Params == nil || len(fd.Type.Params.List) == 0) &&
			fd.Type.Results != nil && len(fd.Type.Results.List) == 2 {
			fd.Name = ast.NewIdent("EncodeFrameVerifOrig")
			rep.Wrapped = append(rep.Wrapped, "internal/lossy:VP8Encoder.EncodeFrame")
			changed = true
		}
		// R3
		if fd.Recv == nil || true {
			for _, yn := range YieldFuncs {
				if fd.Name.Name == yn {
					call := &ast.ExprStmt{X: &ast.CallExpr{
						Fun:  &ast.SelectorExpr{X: ast.NewIdent("vhookR1"), Sel: ast.NewIdent("Yield")},
						Args: []ast.Expr{&ast.BasicLit{Kind: token.STRING, Value: strconv.Quote(yn)}},
					}}
					fd.Body.List = append([]ast.Stmt{call}, fd.Body.List...)
					needHook = true
					changed = true
					rep.YieldPoints = append(rep.YieldPoints, pkgDir+"/"+base+":"+fname)
				}
			}
		}
		// R1
		k := 0
		if runtimeName != "" {
			replaceExprs(fd.Body, func(e ast.Expr) ast.Expr {
				ce, ok := e.(*ast.CallExpr)
				if !ok || len(ce.Args) != 1 {
					return nil
				}
				se, ok := ce.Fun.(*ast.SelectorExpr)
				if !ok || se.Sel.Name != "GOMAXPROCS" {
					return nil
				}
				if id, ok := se.X.(*ast.Ident); !ok || id.Name != runtimeName {
					return nil
				}
				if lit, ok := ce.Args[0].(*ast.BasicLit); !ok || lit.Value != "0" {
					return nil
				}
				site := fmt.Sprintf("%s/%s:%s#%d", pkgDir, base, fname, k)
				k++
				rep.WorkerSites = append(rep.WorkerSites, site)
				needHook = true
				changed = true
				return &ast.CallExpr{
					Fun:  &ast.SelectorExpr{X: ast.NewIdent("vhookR1"), Sel: ast.NewIdent("Workers")},
					Args: []ast.Expr{&ast.BasicLit{Kind: token.STRING, Value: strconv.Quote(site)}},
				}
			})
		}
		// R2: channels local to this function
		if syncName != "" || hasGo {
			if names := localChans(fd.Body); len(names) > 0 {
				if ok := rewriteChans(fd.Body, names, goName); ok {
					rep.ChanFuncs = append(rep.ChanFuncs, rel+":"+fname)
					changed = true
				} else {
					return nil, false, fmt.Errorf("%s uses channels in a shape the rewriter does not model", fname)
				}
			}
		}
		// R2: go statements
		n := rewriteGo(fd.Body, goName)
		if n > 0 {
			rep.GoStmts += n
			changed = true
		}
		// R6: scheduling points around writes to package-level variables
		if len(gvars) > 0 && !(fd.Recv == nil && fd.Name.Name == "init") {
			for _, name := range gscope.insertGlobalYields(fd.Body) {
				rep.GlobalYields = append(rep.GlobalYields, pkgDir+"/"+base+":"+fname+" "+name)
				needHook = true
				changed = true
			}
		}
	}
	if !changed {
		return nil, false, nil
	}
	if needHook {
		addImport(f, "vhookR1", Z+"/vhook")
	}
	if hasGo && syncName == "" {
		addImport(f, goName, Z+"/vsync")
	}
	var buf bytes.Buffer
	if err := printer.Fprint(&buf, fset, f); err != nil {
		return nil, false, err
	}
	if runtimeName != "" {
		fmt.Fprintf(&buf, "\nvar _ = %s.GOMAXPROCS\n", runtimeName)
	}
	return buf.Bytes(), true, nil
}

func recvName(e ast.Expr) string {
	switch t := e.(type) {
	case *ast.StarExpr:
		return recvName(t.X)
	case *ast.Ident:
		return t.Name
	case *ast.IndexExpr:
		return recvName(t.X)
	}
	return "?"
}

func addImport(f *ast.File, name, path string) {
	spec := &ast.ImportSpec{Name: ast.NewIdent(name), Path: &ast.BasicLit{Kind: token.STRING, Value: strconv.Quote(path)}}
	for _, d := range f.Decls {
		if gd, ok := d.(*ast.GenDecl); ok && gd.Tok == token.IMPORT {
			gd.Specs = append(gd.Specs, spec)
			if !gd.Lparen.IsValid() {
				gd.Lparen = gd.Pos()
				gd.Rparen = gd.End()
			}
			f.Imports = append(f.Imports, spec)
			return
		}
	}
	gd := &ast.GenDecl{Tok: token.IMPORT, Specs: []ast.Spec{spec}}
	f.Decls = append([]ast.Decl{gd}, f.Decls...)
	f.Imports = append(f.Imports, spec)
}

// replaceExprs walks n and replaces expressions for which fn returns non-nil.
func replaceExprs(n ast.Node, fn func(ast.Expr) ast.Expr) {
	ast.Inspect(n, func(x ast.Node) bool {
		switch t := x.(type) {
		case *ast.AssignStmt:
			for i, e := range t.Rhs {
				if r := fn(e); r != nil {
					t.Rhs[i] = r
				}
			}
		case *ast.ValueSpec:
			for i, e := range t.Values {
				if r := fn(e); r != nil {
					t.Values[i] = r
				}
			}
		case *ast.BinaryExpr:
			if r := fn(t.X); r != nil {
				t.X = r
			}
			if r := fn(t.Y); r != nil {
				t.Y = r
			}
		case *ast.CallExpr:
			for i, e := range t.Args {
				if r := fn(e); r != nil {
					t.Args[i] = r
				}
			}
		case *ast.ParenExpr:
			if r := fn(t.X); r != nil {
				t.X = r
			}
		case *ast.UnaryExpr:
			if r := fn(t.X); r != nil {
				t.X = r
			}
		case *ast.ReturnStmt:
			for i, e := range t.Results {
				if r := fn(e); r != nil {
					t.Results[i] = r
				}
			}
		case *ast.IfStmt:
			if r := fn(t.Cond); r != nil {
				t.Cond = r
			}
		case *ast.ForStmt:
			if t.Cond != nil {
				if r := fn(t.Cond); r != nil {
					t.Cond = r
				}
			}
		case *ast.SwitchStmt:
			if t.Tag != nil {
				if r := fn(t.Tag); r != nil {
					t.Tag = r
				}
			}
		case *ast.KeyValueExpr:
			if r := fn(t.Value); r != nil {
				t.Value = r
			}
		case *ast.CompositeLit:
			for i, e := range t.Elts {
				if r := fn(e); r != nil {
					t.Elts[i] = r
				}
			}
		case *ast.IndexExpr:
			if r := fn(t.Index); r != nil {
				t.Index = r
			}
		case *ast.ExprStmt:
			if r := fn(t.X); r != nil {
				t.X = r
			}
		}
		return true
	})
}

// rewriteGo replaces `go f(a…)` statements inside body.
func rewriteGo(body *ast.BlockStmt, syncName string) int {
	n := 0
	var visitList func(list []ast.Stmt)
	var visit func(s ast.Stmt) ast.Stmt
	visit = func(s ast.Stmt) ast.Stmt {
		gs, ok := s.(*ast.GoStmt)
		if !ok {
			return nil
		}
		n++
		goSel := &ast.SelectorExpr{X: ast.NewIdent(syncName), Sel: ast.NewIdent("Go")}
		if fl, ok := gs.Call.Fun.(*ast.FuncLit); ok && (fl.Type.Results == nil || len(fl.Type.Results.List) == 0) && !gs.Call.Ellipsis.IsValid() {
			// go func(p T){B}(a)  =>  func(p T){ vsync.Go(func(){B}) }(a)
			// arguments are evaluated at the call, parameters are fresh per
			// call, the body runs in the new thread: same semantics.
			inner := &ast.FuncLit{Type: &ast.FuncType{Params: &ast.FieldList{}}, Body: fl.Body}
			outer := &ast.FuncLit{
				Type: &ast.FuncType{Params: fl.Type.Params},
				Body: &ast.BlockStmt{List: []ast.Stmt{&ast.ExprStmt{X: &ast.CallExpr{Fun: goSel, Args: []ast.Expr{inner}}}}},
			}
			return &ast.ExprStmt{X: &ast.CallExpr{Fun: outer, Args: gs.Call.Args}}
		}
		// generic form: callee and arguments must be evaluated now; only
		// identifiers/selectors/literals are accepted as being stable.
		inner := &ast.FuncLit{Type: &ast.FuncType{Params: &ast.FieldList{}}, Body: &ast.BlockStmt{List: []ast.Stmt{&ast.ExprStmt{X: gs.Call}}}}
		return &ast.ExprStmt{X: &ast.CallExpr{Fun: goSel, Args: []ast.Expr{inner}}}
	}
	_ = visitList
	visitBlock(body, visit)
	return n
}

// visitBlock applies fn to every statement (recursively); a non-nil result
// replaces the statement.
func visitBlock(b *ast.BlockStmt, fn func(ast.Stmt) ast.Stmt) {
	if b == nil {
		return
	}
	var doList func(list []ast.Stmt)
	var doStmt func(s ast.Stmt)
	doList = func(list []ast.Stmt) {
		for i, s := range list {
			if r := fn(s); r != nil {
				list[i] = r
				s = r
			}
			doStmt(s)
		}
	}
	doStmt = func(s ast.Stmt) {
		switch t := s.(type) {
		case *ast.BlockStmt:
			doList(t.List)
		case *ast.IfStmt:
			doList(t.Body.List)
			if t.Else != nil {
				doStmt(t.Else)
			}
		case *ast.ForStmt:
			doList(t.Body.List)
		case *ast.RangeStmt:
			doList(t.Body.List)
		case *ast.SwitchStmt:
			doList(t.Body.List)
		case *ast.TypeSwitchStmt:
			doList(t.Body.List)
		case *ast.SelectStmt:
			doList(t.Body.List)
		case *ast.CaseClause:
			doList(t.Body)
		case *ast.CommClause:
			doList(t.Body)
		case *ast.LabeledStmt:
			if r := fn(t.Stmt); r != nil {
				t.Stmt = r
			}
			doStmt(t.Stmt)
		default:
			// statements containing function literals (defer func(){..}(), x := func(){..})
			ast.Inspect(s, func(n ast.Node) bool {
				if fl, ok := n.(*ast.FuncLit); ok {
					doList(fl.Body.List)
					return false
				}
				return true
			})
		}
	}
	doList(b.List)
}

// localChans returns the names defined as `x := make(chan T[, n])` in body.
func localChans(body *ast.BlockStmt) map[string]ast.Expr {
	out := map[string]ast.Expr{}
	ast.Inspect(body, func(n ast.Node) bool {
		as, ok := n.(*ast.AssignStmt)
		if !ok || as.Tok != token.DEFINE || len(as.Lhs) != 1 || len(as.Rhs) != 1 {
			return true
		}
		ce, ok := as.Rhs[0].(*ast.CallExpr)
		if !ok {
			return true
		}
		if id, ok := ce.Fun.(*ast.Ident); !ok || id.Name != "make" || len(ce.Args) < 1 {
			return true
		}
		ct, ok := ce.Args[0].(*ast.ChanType)
		if !ok {
			return true
		}
		if id, ok := as.Lhs[0].(*ast.Ident); ok {
			out[id.Name] = ct.Value
		}
		return true
	})
	return out
}

// rewriteChans converts the uses of the named local channels.  It returns
// false when a use is found that it cannot express (select, passing the
// channel to another function, unbuffered make).
func rewriteChans(body *ast.BlockStmt, names map[string]ast.Expr, syncName string) bool {
	ok := true
	isCh := func(e ast.Expr) (string, bool) {
		id, k := e.(*ast.Ident)
		if !k {
			return "", false
		}
		_, k = names[id.Name]
		return id.Name, k
	}
	call := func(ch, m string, args ...ast.Expr) *ast.CallExpr {
		return &ast.CallExpr{Fun: &ast.SelectorExpr{X: ast.NewIdent(ch), Sel: ast.NewIdent(m)}, Args: args}
	}
	// reject select statements
	ast.Inspect(body, func(n ast.Node) bool {
		if _, k := n.(*ast.SelectStmt); k {
			ok = false
		}
		return true
	})
	if !ok {
		return false
	}
	// make(...)
	ast.Inspect(body, func(n ast.Node) bool {
		as, k := n.(*ast.AssignStmt)
		if !k || as.Tok != token.DEFINE || len(as.Lhs) != 1 || len(as.Rhs) != 1 {
			return true
		}
		id, k := as.Lhs[0].(*ast.Ident)
		if !k {
			return true
		}
		elem, k := names[id.Name]
		if !k {
			return true
		}
		ce := as.Rhs[0].(*ast.CallExpr)
		if len(ce.Args) != 2 {
			ok = false
			return true
		}
		as.Rhs[0] = &ast.CallExpr{
			Fun:  &ast.IndexExpr{X: &ast.SelectorExpr{X: ast.NewIdent(syncName), Sel: ast.NewIdent("MakeChan")}, Index: elem},
			Args: []ast.Expr{ce.Args[1]},
		}
		return true
	})
	visitBlock(body, func(s ast.Stmt) ast.Stmt {
		switch t := s.(type) {
		case *ast.SendStmt:
			if ch, k := isCh(t.Chan); k {
				return &ast.ExprStmt{X: call(ch, "Send", t.Value)}
			}
		case *ast.ExprStmt:
			if ce, k := t.X.(*ast.CallExpr); k && len(ce.Args) == 1 {
				if id, k := ce.Fun.(*ast.Ident); k && id.Name == "close" {
					if ch, k := isCh(ce.Args[0]); k {
						return &ast.ExprStmt{X: call(ch, "Close")}
					}
				}
			}
		case *ast.RangeStmt:
			if ch, k := isCh(t.X); k {
				if t.Value != nil {
					ok = false
					return nil
				}
				okv := ast.NewIdent("vrecvOK")
				var key ast.Expr = ast.NewIdent("_")
				if t.Key != nil {
					key = t.Key
				}
				tok := token.DEFINE
				post := &ast.AssignStmt{Lhs: []ast.Expr{key, okv}, Tok: token.ASSIGN, Rhs: []ast.Expr{call(ch, "Recv")}}
				fs := &ast.ForStmt{
					Init: &ast.AssignStmt{Lhs: []ast.Expr{key, okv}, Tok: tok, Rhs: []ast.Expr{call(ch, "Recv")}},
					Cond: okv,
					Post: post,
					Body: t.Body,
				}
				if t.Tok != token.DEFINE && t.Key != nil {
					fs.Init.(*ast.AssignStmt).Lhs = []ast.Expr{key, okv}
					// need okv declared: wrap in a block
					decl := &ast.DeclStmt{Decl: &ast.GenDecl{Tok: token.VAR, Specs: []ast.Spec{&ast.ValueSpec{Names: []*ast.Ident{okv}, Type: ast.NewIdent("bool")}}}}
					fs.Init.(*ast.AssignStmt).Tok = token.ASSIGN
					return &ast.BlockStmt{List: []ast.Stmt{decl, fs}}
				}
				// `continue` inside the body runs Post: same as range semantics.
				return nil2(fs, t)
			}
		}
		return nil
	})
	// remaining receive expressions  <-ch
	replaceExprs(body, func(e ast.Expr) ast.Expr {
		if ue, k := e.(*ast.UnaryExpr); k && ue.Op == token.ARROW {
			if ch, k := isCh(ue.X); k {
				return call(ch, "RecvV")
			}
		}
		return nil
	})
	// any other mention of the channel identifiers (argument, assignment) is unsupported
	ast.Inspect(body, func(n ast.Node) bool {
		if ce, k := n.(*ast.CallExpr); k {
			if se, k := ce.Fun.(*ast.SelectorExpr); k {
				if _, k := isCh(se.X); k {
					// method call on the wrapper: check args only
					for _, a := range ce.Args {
						if _, k := isCh(a); k {
							ok = false
						}
					}
					return true
				}
			}
			for _, a := range ce.Args {
				if _, k := isCh(a); k {
					if id, k2 := ce.Fun.(*ast.Ident); k2 && (id.Name == "len" || id.Name == "cap") {
						continue
					}
					ok = false
				}
			}
		}
		return true
	})
	return ok
}

// nil2 recurses into the converted for statement's body (nested statements
// still need visiting) and returns it.
func nil2(fs *ast.ForStmt, _ *ast.RangeStmt) ast.Stmt { return fs }
