package instr

// Accessors generates the R4 accessor files (overlay-only additions to
// internal packages).  Each accessor is generated only if the identifiers it
// needs are still present in the tree; otherwise it is skipped and listed.
func Accessors(repo, outDir string, rep *Report) (map[string]string, error) {
	return genAccessors(repo, outDir, rep)
}
