package instr

func genAccessors(repo, outDir string, rep *Report) (map[string]string, error) {
	return map[string]string{}, nil
}
