package instr

import (
	"fmt"
	"go/ast"
	"go/parser"
	"go/token"
	"os"
	"path/filepath"
	"strings"
)

// hasFunc reports whether the package directory declares a function (or
// method, recv non-empty) with that name.
func hasFunc(dir, recv, name string) bool {
	fset := token.NewFileSet()
	pkgs, err := parser.ParseDir(fset, dir, func(fi os.FileInfo) bool { return !strings.HasSuffix(fi.Name(), "_test.go") }, 0)
	if err != nil {
		return false
	}
	for _, p := range pkgs {
		for _, f := range p.Files {
			for _, d := range f.Decls {
				fd, ok := d.(*ast.FuncDecl)
				if !ok || fd.Name.Name != name {
					continue
				}
				if recv == "" && fd.Recv == nil {
					return true
				}
				if recv != "" && fd.Recv != nil && len(fd.Recv.List) == 1 && recvName(fd.Recv.List[0].Type) == recv {
					return true
				}
			}
		}
	}
	return false
}

// hasField reports whether struct typ in dir has a field named field.
func hasField(dir, typ, field string) bool {
	fset := token.NewFileSet()
	pkgs, err := parser.ParseDir(fset, dir, func(fi os.FileInfo) bool { return !strings.HasSuffix(fi.Name(), "_test.go") }, 0)
	if err != nil {
		return false
	}
	found := false
	for _, p := range pkgs {
		for _, f := range p.Files {
			ast.Inspect(f, func(n ast.Node) bool {
				ts, ok := n.(*ast.TypeSpec)
				if !ok || ts.Name.Name != typ {
					return true
				}
				st, ok := ts.Type.(*ast.StructType)
				if !ok {
					return true
				}
				for _, fl := range st.Fields.List {
					for _, nm := range fl.Names {
						if nm.Name == field {
							found = true
						}
					}
				}
				return true
			})
		}
	}
	return found
}

func genAccessors(repo, outDir string, rep *Report) (map[string]string, error) {
	out := map[string]string{}
	if err := os.MkdirAll(outDir, 0o755); err != nil {
		return nil, err
	}
	emit := func(pkgDir, content string) error {
		dst := filepath.Join(outDir, strings.ReplaceAll(pkgDir, "/", "_")+"_zz_verif_access.go")
		if err := writeIfChanged(dst, []byte(content)); err != nil {
			return err
		}
		out[filepath.Join(repo, pkgDir, "zz_verif_access.go")] = dst
		return nil
	}
	note := func(ok bool, what string) {
		if ok {
			rep.AccessorsOK = append(rep.AccessorsOK, what)
		} else {
			rep.AccessorsBad = append(rep.AccessorsBad, what)
		}
	}

	// --- animation: alphaBlendNRGBA (C09 blend sweep)
	{
		dir := filepath.Join(repo, "animation")
		ok := hasFunc(dir, "", "alphaBlendNRGBA")
		note(ok, "animation.alphaBlendNRGBA")
		body := "package animation\n\nimport \"image/color\"\n\n// VerifAlphaBlend exposes alphaBlendNRGBA to the verification harness (overlay only).\nvar VerifAlphaBlend func(src, dst color.NRGBA) color.NRGBA\n"
		if ok {
			body += "\nfunc init() { VerifAlphaBlend = alphaBlendNRGBA }\n"
		}
		if err := emit("animation", body); err != nil {
			return nil, err
		}
	}
	// --- internal/lossy: encoder reconstruction planes (C06)
	{
		dir := filepath.Join(repo, "internal/lossy")
		ok := false
		for _, w := range rep.Wrapped {
			if w == "internal/lossy:VP8Encoder.EncodeFrame" {
				ok = true
			}
		}
		for _, f := range []string{"yPlane", "uPlane", "vPlane", "yStride", "uvStride", "width", "height"} {
			ok = ok && hasField(dir, "VP8Encoder", f)
		}
		note(ok, "lossy.VP8Encoder reconstruction planes")
		body := "package lossy\n\n"
		if ok {
			body += `import vhookR4 "` + Z + `/vhook"

// EncodeFrame wraps the original method (renamed by the instrumenter) and
// hands copies of the reconstruction planes to the harness (overlay only).
func (enc *VP8Encoder) EncodeFrame() ([]byte, error) {
	bs, err := enc.EncodeFrameVerifOrig()
	if f := vhookR4.PlanesFn; f != nil && err == nil {
		f(enc.width, enc.height, append([]byte(nil), enc.yPlane...), append([]byte(nil), enc.uPlane...), append([]byte(nil), enc.vPlane...), enc.yStride, enc.uvStride)
	}
	return bs, err
}
`
		} else {
			body += "// (EncodeFrame wrapper not generated: method or fields not found)\n"
		}
		if err := emit("internal/lossy", body); err != nil {
			return nil, err
		}
	}
	_ = fmt.Sprint
	return out, nil
}
