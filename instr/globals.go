package instr

import (
	"go/ast"
	"go/parser"
	"go/token"
	"os"
	"path/filepath"
	"strconv"
	"strings"
)

// Rewrite R6: scheduling points around writes to package-level variables.
//
// Packages without any synchronisation (mux, animation's encoder, the container
// parser, most of the root package) have no scheduling points of their own, so
// under the controlled scheduler each of their calls would run atomically and two
// concurrent calls could never interleave inside them.  The only way two such
// calls can share state (apart from arguments the caller shares on purpose) is a
// package-level variable.  R6 therefore puts a scheduling point BEFORE and AFTER
// every statement outside `func init` that can write one: an assignment or ++/--
// whose target is rooted in a package-level variable, or - for variables declared
// without a composite-literal initialiser (buffers, counters, caches; not constant
// tables) - a statement that slices it, takes its address or passes it to a call.
// Before: another thread's accesses can come between this thread's earlier reads
// and the write; after: between the write and this thread's later reads.
//
// On a tree without such writes (today: only the lazily built tables, written once
// under sync.Once or from init) R6 adds nothing to the explored schedules.

type globalInfo struct {
	plain bool // declared without composite-literal / func-literal initialiser and not a sync.* value
}

// scanGlobals returns, per package directory (relative to repo), the package-level variables.
func scanGlobals(repo string) map[string]map[string]globalInfo {
	out := map[string]map[string]globalInfo{}
	tables := map[string][]string{}
	filepath.Walk(repo, func(p string, fi os.FileInfo, err error) error {
		if err != nil {
			return nil
		}
		rel, _ := filepath.Rel(repo, p)
		if fi.IsDir() {
			if rel != "." && skipDir(rel) {
				return filepath.SkipDir
			}
			return nil
		}
		if !strings.HasSuffix(p, ".go") || strings.HasSuffix(p, "_test.go") {
			return nil
		}
		f, err := parser.ParseFile(token.NewFileSet(), p, nil, parser.SkipObjectResolution)
		if err != nil {
			return nil
		}
		dir := filepath.ToSlash(filepath.Dir(rel))
		m := out[dir]
		if m == nil {
			m = map[string]globalInfo{}
			out[dir] = m
		}
		for _, d := range f.Decls {
			gd, ok := d.(*ast.GenDecl)
			if !ok || gd.Tok != token.VAR {
				continue
			}
			for _, sp := range gd.Specs {
				vs := sp.(*ast.ValueSpec)
				for i, n := range vs.Names {
					if n.Name == "_" {
						continue
					}
					plain := !isSyncType(vs.Type)
					if i < len(vs.Values) {
						switch v := vs.Values[i].(type) {
						case *ast.CompositeLit:
							plain = false
						case *ast.FuncLit:
							plain = false
						case *ast.UnaryExpr:
							if _, ok := v.X.(*ast.CompositeLit); ok {
								plain = false
							}
						case *ast.CallExpr:
							// make/new give a buffer; any other call (errors.New, a constructor) gives a
							// value that is not written through afterwards as far as syntax can tell
							if id, ok := v.Fun.(*ast.Ident); !ok || (id.Name != "make" && id.Name != "new") {
								plain = false
							}
						default:
							plain = false // a constant expression or another variable's value
						}
					}
					if _, isFunc := vs.Type.(*ast.FuncType); isFunc {
						plain = false
					}
					m[n.Name] = globalInfo{plain: plain}
				}
			}
		}
		// a variable filled by an init-like function is a table: constant once built, so
		// slicing it or taking an element's address later is a read
		for _, d := range f.Decls {
			fd, ok := d.(*ast.FuncDecl)
			if !ok || fd.Body == nil || !strings.HasPrefix(strings.ToLower(fd.Name.Name), "init") {
				continue
			}
			ast.Inspect(fd.Body, func(x ast.Node) bool {
				if as, ok := x.(*ast.AssignStmt); ok {
					for _, l := range as.Lhs {
						if id := rootIdent(l); id != nil {
							tables[dir] = append(tables[dir], id.Name)
						}
					}
				}
				return true
			})
		}
		return nil
	})
	for dir, names := range tables {
		for _, n := range names {
			if gi, ok := out[dir][n]; ok {
				gi.plain = false
				out[dir][n] = gi
			}
		}
	}
	return out
}

func isSyncType(t ast.Expr) bool {
	se, ok := t.(*ast.SelectorExpr)
	if !ok {
		return false
	}
	id, ok := se.X.(*ast.Ident)
	return ok && (id.Name == "sync" || id.Name == "atomic")
}

// rootIdent strips index, selector, star, paren and slice expressions.
func rootIdent(e ast.Expr) *ast.Ident {
	for {
		switch t := e.(type) {
		case *ast.Ident:
			return t
		case *ast.IndexExpr:
			e = t.X
		case *ast.SelectorExpr:
			e = t.X
		case *ast.StarExpr:
			e = t.X
		case *ast.ParenExpr:
			e = t.X
		case *ast.SliceExpr:
			e = t.X
		default:
			return nil
		}
	}
}

type globalScope struct {
	vars     map[string]globalInfo
	topLevel map[*ast.ValueSpec]bool
	// local names that alias a plain package-level variable in the function being rewritten
	// (x := G[:], x := &G[i], x = G): a statement using one is treated like a use of G itself
	alias map[string]string
}

// pkgVar reports whether id denotes a package-level variable of this package
// (the parser's object resolution tells local declarations apart; an unresolved
// identifier with a matching name is declared in another file of the package).
func (g *globalScope) pkgVar(id *ast.Ident) (globalInfo, bool) {
	if id == nil {
		return globalInfo{}, false
	}
	gi, ok := g.vars[id.Name]
	if !ok {
		return globalInfo{}, false
	}
	if id.Obj != nil {
		vs, isVS := id.Obj.Decl.(*ast.ValueSpec)
		if !isVS || !g.topLevel[vs] {
			return globalInfo{}, false
		}
	}
	return gi, true
}

// writesGlobal returns the name of a package-level variable that node n (a simple
// statement or a header expression) may write, or "".
func (g *globalScope) writesGlobal(n ast.Node) string {
	if n == nil {
		return ""
	}
	found := ""
	note := func(e ast.Expr, needPlain bool) {
		if found != "" {
			return
		}
		id := rootIdent(e)
		if gi, ok := g.pkgVar(id); ok && (!needPlain || gi.plain) {
			found = id.Name
		}
	}
	ast.Inspect(n, func(x ast.Node) bool {
		if found != "" {
			return false
		}
		switch t := x.(type) {
		case *ast.FuncLit:
			return false // its statements are visited on their own
		case *ast.AssignStmt:
			for _, l := range t.Lhs {
				if _, bare := l.(*ast.Ident); bare && t.Tok == token.DEFINE {
					continue
				}
				note(l, false)
			}
		case *ast.IncDecStmt:
			note(t.X, false)
		case *ast.UnaryExpr:
			if t.Op == token.AND {
				note(t.X, true)
			}
		case *ast.SliceExpr:
			note(t.X, true)
		case *ast.CallExpr:
			for _, a := range t.Args {
				if id, ok := a.(*ast.Ident); ok {
					note(id, true)
				}
			}
		}
		return true
	})
	if found != "" {
		// remember direct aliases: x := <expr rooted in / slicing / addressing the variable>
		if as, ok := n.(*ast.AssignStmt); ok && len(as.Lhs) == 1 && len(as.Rhs) == 1 {
			if id, ok := as.Lhs[0].(*ast.Ident); ok && id.Name != "_" {
				r := as.Rhs[0]
				if u, ok := r.(*ast.UnaryExpr); ok && u.Op == token.AND {
					r = u.X
				}
				if rid := rootIdent(r); rid != nil {
					if gi, ok := g.pkgVar(rid); ok && gi.plain && g.alias != nil {
						g.alias[id.Name] = rid.Name
					}
				}
			}
		}
		return found
	}
	if len(g.alias) > 0 {
		ast.Inspect(n, func(x ast.Node) bool {
			if found != "" {
				return false
			}
			if _, ok := x.(*ast.FuncLit); ok {
				return false
			}
			if id, ok := x.(*ast.Ident); ok {
				if gname, ok := g.alias[id.Name]; ok && (id.Obj == nil || !g.isTopLevelObj(id)) {
					found = gname
				}
			}
			return true
		})
	}
	return found
}

func (g *globalScope) isTopLevelObj(id *ast.Ident) bool {
	vs, ok := id.Obj.Decl.(*ast.ValueSpec)
	return ok && g.topLevel[vs]
}

func yieldStmt(name string) ast.Stmt {
	return &ast.ExprStmt{X: &ast.CallExpr{
		Fun:  &ast.SelectorExpr{X: ast.NewIdent("vhookR1"), Sel: ast.NewIdent("Yield")},
		Args: []ast.Expr{&ast.BasicLit{Kind: token.STRING, Value: strconv.Quote("global " + name)}},
	}}
}

// insertGlobalYields rewrites the statement lists of body; it returns the variables found.
func (g *globalScope) insertGlobalYields(body *ast.BlockStmt) []string {
	var names []string
	g.alias = map[string]string{}
	var doList func(list []ast.Stmt) []ast.Stmt
	var doStmt func(s ast.Stmt)
	doLits := func(n ast.Node) {
		ast.Inspect(n, func(x ast.Node) bool {
			if fl, ok := x.(*ast.FuncLit); ok {
				fl.Body.List = doList(fl.Body.List)
				return false
			}
			return true
		})
	}
	doList = func(list []ast.Stmt) []ast.Stmt {
		var out []ast.Stmt
		for _, s := range list {
			name, after := "", true
			switch t := s.(type) {
			case *ast.AssignStmt, *ast.IncDecStmt, *ast.ExprStmt, *ast.DeclStmt, *ast.SendStmt:
				name = g.writesGlobal(s)
			case *ast.ReturnStmt:
				name, after = g.writesGlobal(s), false
			case *ast.IfStmt:
				if name = g.writesGlobal(t.Init); name == "" {
					name = g.writesGlobal(t.Cond)
				}
				after = false
			case *ast.ForStmt:
				if name = g.writesGlobal(t.Init); name == "" {
					if name = g.writesGlobal(t.Cond); name == "" {
						name = g.writesGlobal(t.Post)
					}
				}
				after = false
			case *ast.RangeStmt:
				name, after = g.writesGlobal(t.X), false
			case *ast.SwitchStmt:
				if name = g.writesGlobal(t.Init); name == "" {
					name = g.writesGlobal(t.Tag)
				}
				after = false
			}
			doStmt(s)
			if name != "" {
				names = append(names, name)
				out = append(out, yieldStmt(name), s)
				if after {
					out = append(out, yieldStmt(name))
				}
			} else {
				out = append(out, s)
			}
		}
		return out
	}
	doStmt = func(s ast.Stmt) {
		switch t := s.(type) {
		case *ast.BlockStmt:
			t.List = doList(t.List)
		case *ast.IfStmt:
			t.Body.List = doList(t.Body.List)
			if t.Else != nil {
				doStmt(t.Else)
			}
		case *ast.ForStmt:
			t.Body.List = doList(t.Body.List)
		case *ast.RangeStmt:
			t.Body.List = doList(t.Body.List)
		case *ast.SwitchStmt:
			t.Body.List = doList(t.Body.List)
		case *ast.TypeSwitchStmt:
			t.Body.List = doList(t.Body.List)
		case *ast.SelectStmt:
			t.Body.List = doList(t.Body.List)
		case *ast.CaseClause:
			t.Body = doList(t.Body)
		case *ast.CommClause:
			t.Body = doList(t.Body)
		case *ast.LabeledStmt:
			doStmt(t.Stmt)
		default:
			doLits(s)
		}
	}
	body.List = doList(body.List)
	return names
}
