#!/usr/bin/env python3
"""Generates MANIFEST.json from the table below (kept next to the checks so the
manifest is always valid)."""
import json, sys

CHECKS = {
 "C01": dict(cat="exploration", tech="bounded-exhaustive enumeration of the image-class x lossless-option product on the real encoder/decoder, differential oracle against an independent decoder",
   text="Every leaf of a finite product (size class x colour-content class x alpha class x Go image type x Quality thresholds x Method 0..6 x Exact x metadata, plus every tiny image over a 5-pixel alphabet, plus every number of distinct colours 1..260 on a 20x20 noise layout) is encoded and decoded by the real code; decoded pixels must equal the source read through color.NRGBAModel, by this package's decoder and by the vendored x/image decoder. Exhaustive within the stated alphabet; the right level because the defect regions are defined by joint class conditions, which the product visits completely.",
   note="Trusts: vendored golang.org/x/image vp8l decoder as independent reference; worker count pinned to 1 and pools never reuse (studied by C12/C11); filler pixel values inside a class are fixed functions of position and seed.", ref="3/C01"),
 "C02": dict(cat="exploration", tech="deviation-bounded exhaustive enumeration of EncoderOptions (<=2, thorough <=3 fields off default) x image alphabet on the real encoder; strict container validator + independent decoder, libwebp arbitrating",
   text="All option sets with at most 2 (thorough 3) fields away from DefaultOptions(), each field over its menu of valid values, on a 16-picture alphabet, plus an alphabet-size sweep (every number of distinct colours 1..260 lossless, every number of alpha levels 1..256 lossy, x Quality x Method menus); every output is checked by a RIFF/VP8/VP8L validator written from the specification and decoded by this package and by the vendored x/image decoder (planes/pixels equal; libwebp arbitrates disagreements and must itself accept every file Encode reports success for). Complete up to the stated interaction bound, which covers every single and pairwise option interaction - the region where container and bitstream invariants were found to break.",
   note="Trusts riffwalk (own validator), vendored x/image vp8/vp8l, optional libwebp arbiter; 3-way (4-way) interactions and pictures outside the alphabet are not covered.", ref="3/C02"),
 "C05": dict(cat="fault_enumeration", tech="exhaustive single-fault (header region: double-fault) enumeration over seed files, executed in isolated worker processes with allocation and CPU accounting",
   text="Every prefix, every byte position x 9-value boundary alphabet, every recognised size/dimension field x 15-value boundary alphabet, every chunk delete/duplicate/swap/re-tag, all deviation pairs in the header region, and RIFF skeleton strings, for ~55 seed files; each input is pushed through all nine decoding entry points in a supervised child (panic, process death, CPU blow-up, deadlock, TotalAlloc bound, malformed result).",
   note="Inputs declaring more than 2^22 (thorough 2^26) pixels within the documented caps are skipped and counted; faults are bounded to 1 (header: 2) per seed; allocation is TotalAlloc, time is process CPU time.", ref="3/C05"),
 "C07": dict(cat="exploration", tech="full-product enumeration of alpha-pattern x alpha-option space on the real lossy encoder/decoder with a reference ALPH decoder",
   text="Full product of alpha pattern class x size x RGB class x AlphaCompression x AlphaFiltering x AlphaQuality thresholds x Method x Exact, plus every number of distinct alpha levels 1..256 and curved alpha surfaces (glow, saddle) x compression x filter x Method; decoded alpha must equal source alpha at AlphaQuality 100 (and by the reference ALPH decoder), and obey the documented level count / kept extremes below 100.",
   note="Trusts the reference ALPH decoder (written from the container specification over vendored x/image vp8l); worker count pinned, pools fresh.", ref="3/C07"),
 "C15": dict(cat="exploration", tech="full-product enumeration of metadata blob alphabet^3 x output kinds; byte-exact read-back through three parsers",
   text="Full product of a 10-blob alphabet (absent, nil, empty, 1-3 bytes, chunk-look-alike, 4095/4096/65537 bytes) for each of ICC/EXIF/XMP x 8 output kinds (lossy, lossless, +alpha, +alpha with Exact, 1- and 2-frame AnimEncoder); blobs read back byte-exact by riffwalk, mux.GetChunk and animation.DecodeBytes; flags = presence; bitstream, ALPH payload and pixels identical to the no-metadata output.",
   note="100 MB cap edge is not enumerated in quick; worker count pinned, pools fresh.", ref="3/C15"),
 "C17": dict(cat="fault_enumeration", tech="complete enumeration of all prefixes of every corpus file x 5 kinds of io.Reader against the three public entry points (and image.Decode/DecodeConfig)",
   text="Every prefix (all cut points, and the complete file), delivered through five kinds of io.Reader (known length, unknown length, one byte per Read, data together with io.EOF, image.Decode via the registered format), of ~300 valid still files covering lossy 1-8 partitions, lossless per transform class, lossy+alpha raw/VP8L x filters, extended layouts with metadata/unknown chunks before and after the image, odd payloads: Decode must fail or return the identical picture; DecodeConfig/GetFeatures must fail or return identical values.",
   note="Corpus files are small (<= 6 KB) so that the enumeration is complete; files outside the corpus classes are not covered.", ref="3/C17"),
 "C19": dict(cat="exploration", tech="full-product enumeration of picture x storage placement x codec options; byte equality against the canonical placement",
   text="Full product of picture (size x content x alpha) x 16 storage placements (sub-image, odd sub-image, negative origin, stride padding, poisoned parents, generic NRGBA/RGBA/NRGBA64 wrappers and *image.RGBA at the origin, over sub-image views and at negative origins, over-long Pix) x codec x Exact x sharp YUV x dithering x Method; all placements must give bytes identical to the plain NRGBA-at-origin encoding and leave the caller's buffer untouched.",
   note="RGBA/NRGBA64 wrappers only for opaque pictures (exactly representable colours); worker count pinned, pools fresh.", ref="3/C19"),
 "C20": dict(cat="exploration", tech="pairwise-exhaustive enumeration of EncoderOptions boundary values (deviation bound 2) + documented-equivalence byte comparison",
   text="Every field at its boundary values (min-1..max+1, sentinels, MinInt/MaxInt, NaN/Inf/-0), all (field,value) pairs, on 3 pictures: never panics, error XOR conformant decodable file. Every documented sentinel/inert-field equivalence is checked byte-for-byte under every single-field context; nil = DefaultOptions(); boundary images (nil args, empty/inverted bounds, 16383/16384 px, failing writer).",
   note="Validator and independent decoder as in C02; 3-way value interactions not covered.", ref="3/C20"),
}

_MORE = {
 "C08": dict(cat="model_checking", tech="explicit-state breadth-first search over the real AnimEncoder (histories replayed on fresh objects, reflection state hash), reference player as oracle",
   text="Every AddFrame history up to depth 3 (thorough 4; a 10-picture core alphabet one level deeper) over a 25-operation alphabet of (picture, duration) on an 8x8 canvas x 8 Kmin/Kmax/loop configurations, plus a third search on a 24x16 canvas over 10 many-colour pictures (more colours than a palette, incompressible content, changed regions followed by unchanged pixels, translucent regions on opaque and on transparent ground). After every history the encoder is closed and the bytes are played back by this package's reader+player and by an independent stack (own RIFF parser, vendored decoders, reference compositor); both must show the run-length-merged inputs with the same display times, total duration, loop count and canvas size.",
   note="Bounded depth and picture alphabet; canvases 8x8 and 24x16; model = plain list of (canvas, duration). States are histories merged by private-state hash; every transition is executed on the implementation.", ref="3/C08"),
 "C09": dict(cat="model_checking", tech="explicit-state breadth-first search over the real AnimDecoder with state merging by reflection hash; exhaustive operand sweep of the blend function",
   text="Transition = NextFrame on one more frame from a 252-frame alphabet (rectangle inside/partly outside/outside/larger than the 4x4 canvas x blend x dispose x HasAlpha x 7 fills); depth 3 quick, up to 6 thorough, states merged by a hash of the decoder's complete private state plus the model. Each step is checked against a compositor written from the specification (no key-frame shortcut); every history also checks Reset-replay and that earlier snapshots are untouched. alphaBlendNRGBA is swept over all alpha pairs x channel grid (thorough: all 2^32 operand tuples).",
   note="Blend results accept libwebp's documented integer formula or the specification's real formula within rounding; merging skips the frame list pointer and canonicalises pos (argument in c09.go).", ref="3/C09"),
 "C14": dict(cat="model_checking", tech="explicit-state breadth-first search over the real Muxer (73-call alphabet, depth 4/5) with a plain-struct model, three parsers as oracle",
   text="Every Muxer call sequence up to depth 4 (thorough 5) over AddFrame (6 real bitstreams incl. ALPH-prefixed with both alpha parities x 5 option sets), SetFrameDisposeMode/SetFrameDuration at valid and out-of-range indices, metadata setters/AddChunk x {nil, empty, odd, even}, loop count, background, canvas size; states merged by private-state hash; plus 22 long histories of 1..10001 AddFrame calls around the count limits visible in the code (1000, 10000). After every history Assemble is either an error or a structurally valid file that riffwalk, mux.Demuxer and container.Parser all read back as the model.",
   note="One open known finding (explicit canvas different from a still image, pinned by the repository's own test); frames are real bitstreams (junk is outside the property).", ref="3/C14"),
 "C16": dict(cat="exploration", tech="exhaustive enumeration of a container-layout alphabet (hand-assembled files) plus package outputs; cross-view agreement oracle",
   text="Every hand-assembled container over {VP8, VP8L, VP8L+alpha} x {simple, VP8X} x ALPH {absent, empty, two parities} x unknown chunk position x metadata position x feature flags {exact, each bit over-/under-stated}, plus encoder, animation-encoder and muxer outputs: the agreements the property states between Decode, DecodeConfig, GetFeatures, image.Decode(Config), the demuxer, the animation reader and a neutral parser.",
   note="Layout alphabet is finite and small (280 files); pictures inside are fixed.", ref="3/C16"),
 "C18": dict(cat="model_checking", tech="explicit-state breadth-first search over the real AnimEncoder in lossy/mixed modes; alpha-channel oracle through two players",
   text="C08's search with Lossless x AllowMixed x Quality x key-frame configurations (8) over pictures with binary, graded, translucent (on opaque and on transparent ground) and curved-surface alpha on an 8x8 and a 24x16 canvas, depth 3 (thorough 4; core alphabet one deeper): the alpha channel of every played-back canvas, by this package's player and by the reference stack, equals the source alpha exactly.",
   note="Colour is not compared in lossy modes; bounded depth/alphabet as C08.", ref="3/C18"),

 "C10": dict(cat="model_checking", tech="stateless model checking of the implementation under a controlled scheduler (delay-/preemption-bounded DFS over all schedules), plus a separate free-running race-detector pass",
   text="The instrumenter replaces sync, sync/atomic, go statements, channels and sync.Pool in the current tree by shims that give a cooperative scheduler every synchronisation operation (and the entry of the pipeline's context read/publish functions) as a scheduling point. For 15 scenarios on the real code (row-pipelined lossy encoder for 1/2/3-macroblock-wide pictures, alpha, lossless encode/decode fork-join sections, parallel frame decoding over channels, concurrent public calls with and without pool sharing incl. calls competing for the same pooled encoder/decoder types, two threads on one image) every schedule with at most 2 non-default scheduling decisions (thorough: preemption bound 2 with free switches at blocking points, or delay bound 3) is executed; bytes/pixels must equal the non-preempted schedule (concurrent calls: each result equals what the same call returns when run alone), with no deadlock, lost wake-up, livelock or panic.",
   note="Sequential consistency at scheduling points; plain data races are only sampled by the free-running -race pass (GOMAXPROCS 4 and 16), which is labelled sampling in the evidence. Worker vector fixed per scenario. A completed sync.Once is not a scheduling point.", ref="3/C10"),
 "C11": dict(cat="model_checking", tech="exhaustive history enumeration (all ordered pairs/triples of API calls) x explorable sync.Pool (every assignment of pooled objects to Get calls with <=1 (thorough 2) reuse events + all-reuse), fresh-process results as oracle",
   text="Every ordered pair (thorough: triples over a 16-call core) of a 40-call alphabet chosen to collide (equal/greater/smaller macroblock counts, options that must be reset, methods, alpha, dithering, source types, both codecs, decodes of encoder-made files and of generator-made streams whose headers carry fields no encoder writes, decodes that fail part-way, animation); inside each history every Pool.Get is a choice point (which pooled object, or none). Each result must equal the same call's result as the first call of a fresh process (computed in child processes) and earlier results must stay unchanged.",
   note="vsync.Pool replaces sync.Pool (the runtime's per-P caches and GC clearing are owned by the harness); worker count pinned to 1; histories deeper than 2 (3) calls and >2 reuse events only through the all-reuse schedule.", ref="3/C11"),

 "C12": dict(cat="exploration", tech="exhaustive enumeration of per-call-site worker-count vectors (single and pairwise deviations, all uniform values 1..16) on the real code under a deterministic schedule",
   text="Every runtime.GOMAXPROCS(0) call site in the current tree is turned into a hook by the instrumenter; for 12 (picture, options) cases above every parallel threshold the check runs the all-ones vector, every single site at {2,3,5,16}, every pair of sites at {2,5} and every uniform vector 2..16, under the controlled scheduler's default schedule with pools that never reuse, so the output is a function of the worker vector alone; bytes/pixels must equal the all-ones result.",
   note="GOMAXPROCS above 16, and pictures/options outside the case list, are not covered; schedule and history dependence are C10's and C11's subjects.", ref="3/C12"),

 "C06": dict(cat="exploration", tech="deviation-bounded exhaustive enumeration of lossy options x pictures x {serial, parallel} on the real encoder with an overlay hook exposing its reconstruction; independent decoder without loop filter as oracle",
   text="10 pictures x lossy EncoderOptions with at most 2 (thorough 3) fields away from the defaults (16 fields) x worker count {1, 3 under the deterministic default schedule}, plus every ordered pair of Methods on a recycled encoder, large pictures with more than one token page x Partitions, and pictures of 510+ macroblocks with skewed segment populations: the reconstruction planes the encoder holds when EncodeFrame returns (captured by an overlay wrapper generated at check time) must equal bit-exactly what the vendored decoder reconstructs before in-loop deblocking, and webp.Decode's planes when the filter level is 0; decoded size equals source size.",
   note="Reads VP8Encoder.yPlane/uPlane/vPlane through a generated accessor (skipped and reported, never an alarm, if those fields disappear); 3-way option interactions only in thorough.", ref="3/C06"),

 "C13": dict(cat="exploration", tech="multi-build differential: the same pipeline and kernel-level case list executed by three builds of the current tree (AVX2, SSE2-only, portable Go under js/wasm) plus an exhaustive-over-list GOOS/GOARCH compilation matrix",
   text="The harness is built three times from the current working tree - native amd64 (AVX2 kernels), amd64 with AVX2 detection forced off by an overlay (SSE2 kernels), and GOOS=js GOARCH=wasm executed under node (the files selected for non-assembly targets, i.e. the portable Go kernels) - and each build prints a digest for 260 pipeline cases (15 pictures x 14 option sets incl. every Method, sharp YUV, dithering, TargetSize; decode of the whole still corpus; playback of the animation corpus; decode of ~290 generator-made VP8L/VP8 streams) and for 36 kernel-level families (every kernel with an assembly implementation called through the dispatch points over enumerated boundary inputs: coefficient programs, all pairs of 8 boundary patterns, all 4-tuples of 12 sample values x 6 thresholds, lengths 0..40, widths 1..40 and around 2048/4096, every y x every u x 44 v); the digests must be equal case by case. `go build` of every library package must succeed for 13 GOOS/GOARCH pairs (thorough: every pair the toolchain lists that builds without cgo).",
   note="arm64 assembly and 32-bit targets cannot be executed in this sandbox (compile-only); kernel-level inputs stay below the magnitude range of the recorded IDCT finding; two open known findings (linux/s390x compiler error, 16-bit IDCT wrap on extreme coefficients).", ref="3/C13"),

 "C03": dict(cat="exploration", tech="exhaustive enumeration of syntax trees of a VP8L stream generator (full transform-order product, deviation-bounded feature menus) decoded by the real decoder and by two independent decoders",
   text="A syntax-directed VP8L writer (own bit writer, canonical prefix codes, code-length coding, transforms, entropy image, colour caches, LZ77 programs) is driven by the explorer: the full product of all 65 ordered transform subsets x 13 dimensions x 2 tile sizes with at most one further deviation, 10 orders x 5 dimensions with at most 2 (thorough 3) deviations, and a 128x160 picture x 5 orders with at most 2 deviations (copy lengths up to 4096), from menus covering every predictor mode, multipliers, palette sizes and packings, cache sizes for every image level, meta prefix images, prefix-code shapes (incl. exactly-15-bit skewed codes in both directions), group ids beyond the pixel count and beyond 1000, and 8 backward-reference programs incl. all 120 plane codes and every extra-bit class. Every stream is valid by construction; webp.Decode and lossless.DecodeVP8L must return exactly the pixels of the vendored x/image decoder, with libwebp arbitrating; a hang guard turns a non-terminating decode into a violation.",
   note="A stream both references reject counts as a generator fault, one on which they disagree is dropped and counted (0 and 0 on the pinned tree); pictures are at most 33 px wide; deviations beyond the bound are not covered.", ref="3/C03"),

 "C04": dict(cat="exploration", tech="exhaustive enumeration of syntax trees of a VP8 key-frame generator (own boolean entropy encoder) and of ALPH payload shapes, decoded by the real decoder and by independent references",
   text="A syntax-directed VP8 key-frame writer (RFC 6386 boolean encoder, frame header, segment / filter / quantiser syntax, mode trees with the format's probability tables, token trees with contexts, 1-8 partitions) is driven by the explorer over 10 picture sizes (incl. 1x1, 31x1, 1x18, 2x3) with at most 2 deviations (3 on a 3x2-macroblock picture; thorough 3/4) from menus covering quantiser indices and all five deltas, four segment configurations, filter level/type/sharpness/deltas, every 16x16, 4x4 and chroma mode, eleven coefficient programs x magnitudes up to 2114, both spellings of trailing zeros (EOB / explicit DCT_0 tokens), skip-flag usage, probability updates. Y/Cb/Cr from lossy.DecodeFrame and webp.Decode must equal the vendored decoder's, libwebp arbitrating. ALPH: 8.7 k payloads (raw with each filter / pre-processing / reserved bits / trailing bytes; VP8L payloads from the lossless generator) checked against a reference ALPH decoder and a reference fancy upsampler (validated against libwebp on every case).",
   note="Frames the references reject or disagree on are dropped and counted; coefficient levels are limited so that level x quantiser fits 16 bits; pictures have at most 3x3 macroblocks.", ref="3/C04"),
}
CHECKS.update(_MORE)
NA = {}
ALL = ["C%02d" % i for i in range(1, 21)]

def main():
    checks = []
    for cid in ALL:
        if cid not in CHECKS:
            continue
        c = CHECKS[cid]
        checks.append({
            "property_id": cid,
            "quick_cmd": "./bin/vcheck %s quick" % cid,
            "thorough_cmd": "./bin/vcheck %s thorough" % cid,
            "evidence_file": "/verif/evidence/%s.json" % cid,
            "replay_cmd_template": "./bin/vcheck %s --replay {path}" % cid,
            "engine": c.get("engine", "vcheck"),
            "level_claimed": {"category": c["cat"], "text": c["text"], "design_ref": "DESIGN.md section " + c["ref"]},
            "level_note": c["note"],
            "technique": c["tech"],
        })
    na = [{"property_id": cid, "reason": NA.get(cid, "check not built yet in this session; see DESIGN.md section 3 for the planned procedure")} for cid in ALL if cid not in CHECKS]
    m = {
        "version": 1,
        "setup_cmd": "./setup.sh",
        "hooks": {
            "guard": "verif_overlay (no hooks are committed to the repository: instrumentation is generated from the current working tree at check time and applied with `go build -overlay`)",
            "enable": "./bin/vcheck <id> <tier> runs verif/instr over $VERIF_REPO (default /repo), writes .build/<id>/overlay.json and builds ./internal/zzverif/cmd/harness with -overlay",
            "baseline_off_cmd": "cd /repo && go test -vet=off -count=1 -timeout 25m ./...",
            "source_commits": [],
            "add_only": True,
        },
        "engines": [
            {"name": "vcheck", "path": "/verif/cmd/vcheck", "serves_properties": sorted(CHECKS), "kind_free_text": "driver: AST instrumenter + overlay build + sharded harness (choice-tree explorer, controlled scheduler, explicit-state BFS, fault enumerator)"},
        ],
        "checks": checks,
        "not_applicable": na,
        "notes": "All checks rebuild the harness from /repo's current working tree on every invocation. Exit 0 held / 1 violation / 2 harness error. known_findings.json lists fixed and open findings.",
    }
    json.dump(m, open("MANIFEST.json", "w"), indent=1)
    print("MANIFEST.json: %d checks, %d not_applicable" % (len(checks), len(na)))

if __name__ == "__main__":
    main()
