#!/usr/bin/env python3
"""Generates MANIFEST.json from the table below (kept next to the checks so the
manifest is always valid)."""
import json, sys

CHECKS = {
 "C01": dict(cat="exploration", tech="bounded-exhaustive enumeration of the image-class x lossless-option product on the real encoder/decoder, differential oracle against an independent decoder",
   text="Every leaf of a finite product (size class x colour-content class x alpha class x Go image type x Quality thresholds x Method 0..6 x Exact x metadata, plus every tiny image over a 5-pixel alphabet) is encoded and decoded by the real code; decoded pixels must equal the source read through color.NRGBAModel, by this package's decoder and by the vendored x/image decoder. Exhaustive within the stated alphabet; the right level because the defect regions are defined by joint class conditions, which the product visits completely.",
   note="Trusts: vendored golang.org/x/image vp8l decoder as independent reference; worker count pinned to 1 and pools never reuse (studied by C12/C11); filler pixel values inside a class are fixed functions of position and seed.", ref="3/C01"),
}
NA = {}
ALL = ["C%02d" % i for i in range(1, 21)]

def main():
    checks = []
    for cid in ALL:
        if cid not in CHECKS:
            continue
        c = CHECKS[cid]
        checks.append({
            "property_id": cid,
            "quick_cmd": "./bin/vcheck %s quick" % cid,
            "thorough_cmd": "./bin/vcheck %s thorough" % cid,
            "evidence_file": "/verif/evidence/%s.json" % cid,
            "replay_cmd_template": "./bin/vcheck %s --replay {path}" % cid,
            "engine": c.get("engine", "vcheck"),
            "level_claimed": {"category": c["cat"], "text": c["text"], "design_ref": "DESIGN.md section " + c["ref"]},
            "level_note": c["note"],
            "technique": c["tech"],
        })
    na = [{"property_id": cid, "reason": NA.get(cid, "check not built yet in this session; see DESIGN.md section 3 for the planned procedure")} for cid in ALL if cid not in CHECKS]
    m = {
        "version": 1,
        "setup_cmd": "./setup.sh",
        "hooks": {
            "guard": "verif_overlay (no hooks are committed to the repository: instrumentation is generated from the current working tree at check time and applied with `go build -overlay`)",
            "enable": "./bin/vcheck <id> <tier> runs verif/instr over $VERIF_REPO (default /repo), writes .build/<id>/overlay.json and builds ./internal/zzverif/cmd/harness with -overlay",
            "baseline_off_cmd": "cd /repo && go test -vet=off -count=1 -timeout 25m ./...",
            "source_commits": [],
            "add_only": True,
        },
        "engines": [
            {"name": "vcheck", "path": "/verif/cmd/vcheck", "serves_properties": sorted(CHECKS), "kind_free_text": "driver: AST instrumenter + overlay build + sharded harness (choice-tree explorer, controlled scheduler, explicit-state BFS, fault enumerator)"},
        ],
        "checks": checks,
        "not_applicable": na,
        "notes": "All checks rebuild the harness from /repo's current working tree on every invocation. Exit 0 held / 1 violation / 2 harness error. known_findings.json lists fixed and open findings.",
    }
    json.dump(m, open("MANIFEST.json", "w"), indent=1)
    print("MANIFEST.json: %d checks, %d not_applicable" % (len(checks), len(na)))

if __name__ == "__main__":
    main()
