#!/usr/bin/env python3
"""Generates MANIFEST.json from the table below (kept next to the checks so the
manifest is always valid)."""
import json, sys

CHECKS = {
 "C01": dict(cat="exploration", tech="bounded-exhaustive enumeration of the image-class x lossless-option product on the real encoder/decoder, differential oracle against an independent decoder",
   text="Every leaf of a finite product (size class x colour-content class x alpha class x Go image type x Quality thresholds x Method 0..6 x Exact x metadata, plus every tiny image over a 5-pixel alphabet) is encoded and decoded by the real code; decoded pixels must equal the source read through color.NRGBAModel, by this package's decoder and by the vendored x/image decoder. Exhaustive within the stated alphabet; the right level because the defect regions are defined by joint class conditions, which the product visits completely.",
   note="Trusts: vendored golang.org/x/image vp8l decoder as independent reference; worker count pinned to 1 and pools never reuse (studied by C12/C11); filler pixel values inside a class are fixed functions of position and seed.", ref="3/C01"),
 "C02": dict(cat="exploration", tech="deviation-bounded exhaustive enumeration of EncoderOptions (<=2, thorough <=3 fields off default) x image alphabet on the real encoder; strict container validator + independent decoder, libwebp arbitrating",
   text="All option sets with at most 2 (thorough 3) fields away from DefaultOptions(), each field over its menu of valid values, on a 12-picture alphabet; every output is checked by a RIFF/VP8/VP8L validator written from the specification and decoded by this package and by the vendored x/image decoder (planes/pixels equal; libwebp arbitrates disagreements). Complete up to the stated interaction bound, which covers every single and pairwise option interaction - the region where container and bitstream invariants were found to break.",
   note="Trusts riffwalk (own validator), vendored x/image vp8/vp8l, optional libwebp arbiter; 3-way (4-way) interactions and pictures outside the alphabet are not covered.", ref="3/C02"),
 "C05": dict(cat="fault_enumeration", tech="exhaustive single-fault (header region: double-fault) enumeration over seed files, executed in isolated worker processes with allocation and CPU accounting",
   text="Every prefix, every byte position x 9-value boundary alphabet, every recognised size/dimension field x 15-value boundary alphabet, every chunk delete/duplicate/swap/re-tag, all deviation pairs in the header region, and RIFF skeleton strings, for ~55 seed files; each input is pushed through all nine decoding entry points in a supervised child (panic, process death, CPU blow-up, deadlock, TotalAlloc bound, malformed result).",
   note="Inputs declaring more than 2^22 (thorough 2^26) pixels within the documented caps are skipped and counted; faults are bounded to 1 (header: 2) per seed; allocation is TotalAlloc, time is process CPU time.", ref="3/C05"),
 "C07": dict(cat="exploration", tech="full-product enumeration of alpha-pattern x alpha-option space on the real lossy encoder/decoder with a reference ALPH decoder",
   text="Full product of alpha pattern class x size x RGB class x AlphaCompression x AlphaFiltering x AlphaQuality thresholds x Method x Exact; decoded alpha must equal source alpha at AlphaQuality 100 (and by the reference ALPH decoder), and obey the documented level count / kept extremes below 100.",
   note="Trusts the reference ALPH decoder (written from the container specification over vendored x/image vp8l); worker count pinned, pools fresh.", ref="3/C07"),
 "C15": dict(cat="exploration", tech="full-product enumeration of metadata blob alphabet^3 x output kinds; byte-exact read-back through three parsers",
   text="Full product of a 10-blob alphabet (absent, nil, empty, 1-3 bytes, chunk-look-alike, 4095/4096/65537 bytes) for each of ICC/EXIF/XMP x 6 output kinds (lossy, lossless, +alpha, 1- and 2-frame AnimEncoder); blobs read back byte-exact by riffwalk, mux.GetChunk and animation.DecodeBytes; flags = presence; bitstream, ALPH payload and pixels identical to the no-metadata output.",
   note="100 MB cap edge is not enumerated in quick; worker count pinned, pools fresh.", ref="3/C15"),
 "C17": dict(cat="fault_enumeration", tech="complete enumeration of all proper prefixes of every corpus file against the three public entry points",
   text="Every proper prefix (all cut points) of ~50 valid still files covering lossy 1-8 partitions, lossless per transform class, lossy+alpha raw/VP8L x filters, extended layouts with metadata/unknown chunks before and after the image, odd payloads: Decode must fail or return the identical picture; DecodeConfig/GetFeatures must fail or return identical values.",
   note="Corpus files are small (<= 6 KB) so that the enumeration is complete; files outside the corpus classes are not covered.", ref="3/C17"),
 "C19": dict(cat="exploration", tech="full-product enumeration of picture x storage placement x codec options; byte equality against the canonical placement",
   text="Full product of picture (size x content x alpha) x 10 storage placements (sub-image, odd sub-image, negative origin, stride padding, poisoned parents, generic wrappers, over-long Pix) x codec x Exact x sharp YUV x dithering x Method; all placements must give bytes identical to the plain NRGBA-at-origin encoding and leave the caller's buffer untouched.",
   note="RGBA/NRGBA64 wrappers only for opaque pictures (exactly representable colours); worker count pinned, pools fresh.", ref="3/C19"),
 "C20": dict(cat="exploration", tech="pairwise-exhaustive enumeration of EncoderOptions boundary values (deviation bound 2) + documented-equivalence byte comparison",
   text="Every field at its boundary values (min-1..max+1, sentinels, MinInt/MaxInt, NaN/Inf/-0), all (field,value) pairs, on 3 pictures: never panics, error XOR conformant decodable file. Every documented sentinel/inert-field equivalence is checked byte-for-byte under every single-field context; nil = DefaultOptions(); boundary images (nil args, empty/inverted bounds, 16383/16384 px, failing writer).",
   note="Validator and independent decoder as in C02; 3-way value interactions not covered.", ref="3/C20"),
}
NA = {}
ALL = ["C%02d" % i for i in range(1, 21)]

def main():
    checks = []
    for cid in ALL:
        if cid not in CHECKS:
            continue
        c = CHECKS[cid]
        checks.append({
            "property_id": cid,
            "quick_cmd": "./bin/vcheck %s quick" % cid,
            "thorough_cmd": "./bin/vcheck %s thorough" % cid,
            "evidence_file": "/verif/evidence/%s.json" % cid,
            "replay_cmd_template": "./bin/vcheck %s --replay {path}" % cid,
            "engine": c.get("engine", "vcheck"),
            "level_claimed": {"category": c["cat"], "text": c["text"], "design_ref": "DESIGN.md section " + c["ref"]},
            "level_note": c["note"],
            "technique": c["tech"],
        })
    na = [{"property_id": cid, "reason": NA.get(cid, "check not built yet in this session; see DESIGN.md section 3 for the planned procedure")} for cid in ALL if cid not in CHECKS]
    m = {
        "version": 1,
        "setup_cmd": "./setup.sh",
        "hooks": {
            "guard": "verif_overlay (no hooks are committed to the repository: instrumentation is generated from the current working tree at check time and applied with `go build -overlay`)",
            "enable": "./bin/vcheck <id> <tier> runs verif/instr over $VERIF_REPO (default /repo), writes .build/<id>/overlay.json and builds ./internal/zzverif/cmd/harness with -overlay",
            "baseline_off_cmd": "cd /repo && go test -vet=off -count=1 -timeout 25m ./...",
            "source_commits": [],
            "add_only": True,
        },
        "engines": [
            {"name": "vcheck", "path": "/verif/cmd/vcheck", "serves_properties": sorted(CHECKS), "kind_free_text": "driver: AST instrumenter + overlay build + sharded harness (choice-tree explorer, controlled scheduler, explicit-state BFS, fault enumerator)"},
        ],
        "checks": checks,
        "not_applicable": na,
        "notes": "All checks rebuild the harness from /repo's current working tree on every invocation. Exit 0 held / 1 violation / 2 harness error. known_findings.json lists fixed and open findings.",
    }
    json.dump(m, open("MANIFEST.json", "w"), indent=1)
    print("MANIFEST.json: %d checks, %d not_applicable" % (len(checks), len(na)))

if __name__ == "__main__":
    main()
