// vcheck is the driver registered in MANIFEST.json.
//
//	vcheck <id> quick|thorough        run a check
//	vcheck <id> --replay <path>       re-execute one recorded violation
//	vcheck build                      warm the build cache (setup_cmd)
//
// It instruments the *current working tree* of $VERIF_REPO (default /repo),
// builds the harness through `go build -overlay` (nothing in the repository is
// modified) and executes it.  Exit status: 0 held, 1 violation, 2 harness error.
package main

import (
	"encoding/json"
	"fmt"
	"os"
	"os/exec"
	"path/filepath"
	"sort"
	"strings"
	"syscall"

	"verif/instr"
)

func die(format string, a ...any) {
	fmt.Fprintf(os.Stderr, "vcheck: "+format+"\n", a...)
	os.Exit(2)
}

func main() {
	if len(os.Args) < 2 {
		die("usage: vcheck <id> quick|thorough | vcheck <id> --replay <path> | vcheck build")
	}
	verif := os.Getenv("VERIF_DIR")
	if verif == "" {
		exe, _ := os.Executable()
		verif = filepath.Dir(filepath.Dir(exe))
		if _, err := os.Stat(filepath.Join(verif, "harness")); err != nil {
			verif = "/verif"
		}
	}
	repo := os.Getenv("VERIF_REPO")
	if repo == "" {
		repo = "/repo"
	}
	repo, _ = filepath.Abs(repo)
	id := os.Args[1]
	variant := "base"
	if v := os.Getenv("VERIF_VARIANT"); v != "" {
		variant = v
	}
	tag := id
	if id == "build" {
		tag = "warm"
	}
	bdir := filepath.Join(verif, ".build", tag)
	bin, rep, err := Build(verif, repo, bdir, variant, nil)
	if err != nil {
		fmt.Fprintf(os.Stderr, "%v\n", err)
		if id == "C13" {
			// "compiles" is part of C13's statement; the harness decides that
			// with its own go build invocations, so a build failure of the
			// instrumented tree is still a harness error here.
		}
		os.Exit(2)
	}
	_ = rep
	if id == "build" {
		fmt.Println("vcheck: harness built:", bin)
		return
	}
	env := append(os.Environ(),
		"VERIF_DIR="+verif, "VERIF_REPO="+repo, "VERIF_BUILD="+bdir)
	args := append([]string{bin}, os.Args[1:]...)
	if err := syscall.Exec(bin, args, env); err != nil {
		die("exec %s: %v", bin, err)
	}
}

// GoEnv is the environment for go commands run inside the repository.
func GoEnv(verif string) []string {
	env := []string{}
	for _, e := range os.Environ() {
		if strings.HasPrefix(e, "GOFLAGS=") || strings.HasPrefix(e, "GOPROXY=") || strings.HasPrefix(e, "GOCACHE=") ||
			strings.HasPrefix(e, "GOSUMDB=") || strings.HasPrefix(e, "GOTOOLCHAIN=") || strings.HasPrefix(e, "GOARCH=") || strings.HasPrefix(e, "GOOS=") || strings.HasPrefix(e, "GOWORK=") {
			continue
		}
		env = append(env, e)
	}
	return append(env, "GOFLAGS=-mod=mod", "GOPROXY=off", "GOWORK=off", "GOCACHE="+filepath.Join(verif, ".build", "gocache"))
}

// Build instruments repo and builds the harness binary.
func Build(verif, repo, bdir, variant string, extraTags []string) (string, *instr.Report, error) {
	if err := os.MkdirAll(bdir, 0o755); err != nil {
		return "", nil, err
	}
	rep := &instr.Report{}
	overlay, err := instr.Rewrite(repo, filepath.Join(bdir, "src"), rep)
	if err != nil {
		return "", rep, fmt.Errorf("instrumenter: %v", err)
	}
	// accessor files (R4)
	acc, err := instr.Accessors(repo, filepath.Join(bdir, "acc"), rep)
	if err != nil {
		return "", rep, fmt.Errorf("accessors: %v", err)
	}
	for k, v := range acc {
		overlay[k] = v
	}
	// harness packages as virtual packages inside the module
	hroot := filepath.Join(verif, "harness")
	err = filepath.Walk(hroot, func(p string, fi os.FileInfo, err error) error {
		if err != nil {
			return err
		}
		if fi.IsDir() {
			return nil
		}
		rel, _ := filepath.Rel(hroot, p)
		if strings.HasSuffix(p, ".go") || strings.HasSuffix(p, ".s") {
			overlay[filepath.Join(repo, "internal", "zzverif", rel)] = p
		}
		return nil
	})
	if err != nil {
		return "", rep, err
	}
	type ov struct {
		Replace map[string]string
	}
	data, _ := json.MarshalIndent(ov{overlay}, "", " ")
	ovPath := filepath.Join(bdir, "overlay.json")
	if err := os.WriteFile(ovPath, data, 0o644); err != nil {
		return "", rep, err
	}
	rdata, _ := json.MarshalIndent(rep, "", " ")
	os.WriteFile(filepath.Join(bdir, "instr_report.json"), rdata, 0o644)
	bin := filepath.Join(bdir, "harness")
	args := []string{"build", "-overlay", ovPath, "-o", bin}
	if len(extraTags) > 0 {
		args = append(args, "-tags", strings.Join(extraTags, ","))
	}
	args = append(args, "./internal/zzverif/cmd/harness")
	cmd := exec.Command("go", args...)
	cmd.Dir = repo
	cmd.Env = GoEnv(verif)
	out, err := cmd.CombinedOutput()
	if err != nil {
		lines := strings.Split(string(out), "\n")
		sort.Strings(nil)
		if len(lines) > 60 {
			lines = lines[:60]
		}
		return "", rep, fmt.Errorf("vcheck: harness build failed (harness error, not a verdict):\n%s", strings.Join(lines, "\n"))
	}
	return bin, rep, nil
}
