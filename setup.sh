#!/bin/sh
# setup_cmd: build the driver from files on disk only and warm the private
# build cache by building the instrumented harness once.
set -e
cd "$(dirname "$0")"
export GOPROXY=off GOFLAGS=-mod=mod
mkdir -p bin evidence replays .build
go build -o bin/vcheck ./cmd/vcheck
./bin/vcheck build
# warm the cross-compilation caches used by C13 (standard library per target)
if [ -d /repo ]; then
  ( cd /repo && printf '%s\n' linux/386 linux/arm linux/arm64 linux/riscv64 linux/mips linux/ppc64le linux/s390x js/wasm wasip1/wasm windows/arm64 windows/386 darwin/arm64 freebsd/amd64 | \
    xargs -P 4 -I{} sh -c 't={}; GOOS=${t%/*} GOARCH=${t#*/} CGO_ENABLED=0 GOFLAGS=-mod=mod GOPROXY=off GOWORK=off GOCACHE=/verif/.build/gocache go build std >/dev/null 2>&1 || true' )
  # race-enabled harness (C10's free-running pass) and the js/wasm harness (C13)
  ( cd /repo && GOFLAGS=-mod=mod GOPROXY=off GOWORK=off GOCACHE=/verif/.build/gocache go build -race -overlay /verif/.build/warm/overlay.json -o /verif/.build/warm/harness-race ./internal/zzverif/cmd/harness >/dev/null 2>&1
    GOOS=js GOARCH=wasm GOFLAGS=-mod=mod GOPROXY=off GOWORK=off GOCACHE=/verif/.build/gocache go build -overlay /verif/.build/warm/overlay.json -o /verif/.build/warm/harness.wasm ./internal/zzverif/cmd/harness >/dev/null 2>&1 ) || true
fi
if [ -f tools/arbiter.c ]; then
  gcc -O1 -o bin/arbiter tools/arbiter.c -l:libwebp.so.7 2>/dev/null || echo "setup: libwebp arbiter not built (optional)"
fi
echo "setup: ok"
