#!/bin/sh
# setup_cmd: build the driver from files on disk only and warm the private
# build cache by building the instrumented harness once.
set -e
cd "$(dirname "$0")"
export GOPROXY=off GOFLAGS=-mod=mod
mkdir -p bin evidence replays .build
go build -o bin/vcheck ./cmd/vcheck
./bin/vcheck build
if [ -f tools/arbiter.c ]; then
  gcc -O1 -o bin/arbiter tools/arbiter.c -l:libwebp.so.7 2>/dev/null || echo "setup: libwebp arbiter not built (optional)"
fi
echo "setup: ok"
