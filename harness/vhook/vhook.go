// Package vhook receives the calls that the instrumenter (rewrite R1) puts in
// place of runtime.GOMAXPROCS(0), and the event calls of rewrite R4.
package vhook

import (
	"runtime"

	"github.com/deepteams/webp/internal/zzverif/vsync"
	"sort"
	"sync"
	"sync/atomic"
)

var (
	defWorkers atomic.Int32 // 0: real GOMAXPROCS
	mu         sync.Mutex
	site       = map[string]int{}
	seen       = map[string]int{}
)

// Workers is what the rewritten tree calls instead of runtime.GOMAXPROCS(0).
func Workers(s string) int {
	mu.Lock()
	seen[s]++
	n, ok := site[s]
	mu.Unlock()
	if ok {
		return n
	}
	if d := int(defWorkers.Load()); d > 0 {
		return d
	}
	return runtime.GOMAXPROCS(0)
}

// SetDefault sets the value returned at sites without an override (0 = real).
func SetDefault(n int) { defWorkers.Store(int32(n)) }

// SetSite overrides one call site.
func SetSite(s string, n int) { mu.Lock(); site[s] = n; mu.Unlock() }

// ClearSites removes all per-site overrides.
func ClearSites() { mu.Lock(); site = map[string]int{}; mu.Unlock() }

// Seen returns the call sites reached so far and how often.
func Seen() map[string]int {
	mu.Lock()
	defer mu.Unlock()
	m := map[string]int{}
	for k, v := range seen {
		m[k] = v
	}
	return m
}

func SeenList() []string {
	var l []string
	for k := range Seen() {
		l = append(l, k)
	}
	sort.Strings(l)
	return l
}

func ResetSeen() { mu.Lock(); seen = map[string]int{}; mu.Unlock() }

// Event is called at the pipeline functions named in DESIGN.md C10 (R4).
var EventFn func(name string, a, b, c int)

func Event(name string, a, b, c int) {
	if f := EventFn; f != nil {
		f(name, a, b, c)
	}
}

// Planes receives copies of the VP8 encoder's reconstruction (R4, C06).
var PlanesFn func(w, h int, y, u, v []byte, yStride, uvStride int)

// Yield is a scheduling point inserted by rewrite R3 at the entry of the
// functions named in instr.YieldFuncs; it does nothing outside controlled mode.
func Yield(name string) {
	if vsync.Controlled() {
		vsync.Point("yield " + name)
	}
}
