package vp8

// (verif addition) The format's constant tables, exported for the harness's
// VP8 key-frame generator.  They are constants of RFC 6386, not decoder logic.

// PredProbTable is the key-frame sub-block mode probability table (section 11.5),
// indexed [above][left][9] with modes DC, TM, VE, HE, RD, VR, LD, VL, HD, HU.
func PredProbTable() [nPred][nPred][9]uint8 { return predProb }

// DefaultTokenProbTable is the default coefficient probability table (section 13.5).
func DefaultTokenProbTable() [nPlane][nBand][nContext][nProb]uint8 { return defaultTokenProb }

// TokenProbUpdateProbTable is the probability of each coefficient probability update (section 13.4).
func TokenProbUpdateProbTable() [nPlane][nBand][nContext][nProb]uint8 { return tokenProbUpdateProb }
