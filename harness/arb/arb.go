// Package arb talks to the optional libwebp arbiter (tools/arbiter.c).
package arb

import (
	"bufio"
	"fmt"
	"io"
	"os"
	"os/exec"
	"path/filepath"
	"sync"
)

type server struct {
	cmd *exec.Cmd
	in  io.WriteCloser
	out *bufio.Reader
}

var (
	mu   sync.Mutex
	srv  *server
	dead bool
)

func start() *server {
	if srv != nil || dead {
		return srv
	}
	dir := os.Getenv("VERIF_DIR")
	if dir == "" {
		dir = "/verif"
	}
	p := filepath.Join(dir, "bin", "arbiter")
	if _, err := os.Stat(p); err != nil {
		dead = true
		return nil
	}
	cmd := exec.Command(p)
	in, _ := cmd.StdinPipe()
	out, _ := cmd.StdoutPipe()
	if err := cmd.Start(); err != nil {
		dead = true
		return nil
	}
	srv = &server{cmd, in, bufio.NewReaderSize(out, 1<<16)}
	return srv
}

// Available reports whether the arbiter binary exists and starts.
func Available() bool {
	mu.Lock()
	defer mu.Unlock()
	return start() != nil
}

func ask(mode byte, data []byte) (ok bool, w, h int, payload []byte, err error) {
	mu.Lock()
	defer mu.Unlock()
	s := start()
	if s == nil {
		return false, 0, 0, nil, fmt.Errorf("arbiter not available")
	}
	fail := func(e error) (bool, int, int, []byte, error) {
		s.cmd.Process.Kill()
		s.cmd.Wait()
		srv = nil
		return false, 0, 0, nil, e
	}
	if _, e := fmt.Fprintf(s.in, "%c %d\n", mode, len(data)); e != nil {
		return fail(e)
	}
	if _, e := s.in.Write(data); e != nil {
		return fail(e)
	}
	var okv, n int
	line, e := s.out.ReadString('\n')
	if e != nil {
		return fail(e)
	}
	if _, e := fmt.Sscanf(line, "%d %d %d %d", &okv, &w, &h, &n); e != nil {
		return fail(e)
	}
	payload = make([]byte, n)
	if _, e := io.ReadFull(s.out, payload); e != nil {
		return fail(e)
	}
	return okv == 1, w, h, payload, nil
}

// YUV decodes data with libwebp; ok=false means libwebp rejects the file.
func YUV(data []byte) (ok bool, w, h int, y, u, v []byte, err error) {
	ok, w, h, p, err := ask('Y', data)
	if err != nil || !ok {
		return ok, 0, 0, nil, nil, nil, err
	}
	cw, ch := (w+1)/2, (h+1)/2
	return true, w, h, p[:w*h], p[w*h : w*h+cw*ch], p[w*h+cw*ch:], nil
}

// RGBA decodes data with libwebp to non-premultiplied RGBA.
func RGBA(data []byte) (ok bool, w, h int, pix []byte, err error) {
	return ask('R', data)
}
