// harness is the check binary built inside the instrumented repository module.
package main

import (
	_ "github.com/deepteams/webp/internal/zzverif/checks"
	"github.com/deepteams/webp/internal/zzverif/fw"
)

func main() { fw.Main() }
