// Package bfs is the explicit-state search over real objects (DESIGN.md 2.4).
// Live objects cannot be cloned: a state is represented by the shortest
// operation history that reaches it; a successor is built by replaying that
// history on a fresh object and applying one more operation.
package bfs

import (
	"fmt"
	"hash/fnv"
	"reflect"
	"unsafe"
)

// Step is the outcome of executing one history.
type Step struct {
	Key       uint64 // canonical hash of (implementation private state, model state)
	Violation string // "" = all oracles held on this history
	Terminal  bool   // do not extend this history (e.g. the object rejected the operation)
}

// System is a transition system explored over operation indices [0,NOps).
type System interface {
	NOps(depth int) int
	// Exec replays hist (operation indices) on a fresh real object in
	// lock-step with the reference model and evaluates the oracles.
	Exec(hist []int) Step
	Describe(hist []int) string
}

// Config of one search.
type Config struct {
	MaxDepth int
	// FirstOp restricts the search to histories whose first operation i
	// satisfies i % NShard == Shard (process-level sharding).
	Shard, NShard  int
	MaxTransitions int64
	Stop           func() bool
	OnViolation    func(hist []int, v string)
	OnState        func(key uint64, hist []int)
}

// Stats of one search.
type Stats struct {
	States      int64
	Transitions int64
	Depth       int // deepest level fully expanded
	Capped      string
	PerDepth    []int64
}

// Run performs a breadth-first search with state merging.
func Run(sys System, cfg Config) Stats {
	var st Stats
	seen := map[uint64]struct{}{}
	frontier := [][]int{{}}
	for depth := 0; depth < cfg.MaxDepth; depth++ {
		var next [][]int
		for _, h := range frontier {
			n := sys.NOps(depth)
			for op := 0; op < n; op++ {
				if depth == 0 && cfg.NShard > 1 && op%cfg.NShard != cfg.Shard {
					continue
				}
				if cfg.Stop != nil && cfg.Stop() {
					st.Capped = fmt.Sprintf("deadline reached at depth %d", depth+1)
					st.States = int64(len(seen))
					return st
				}
				if cfg.MaxTransitions > 0 && st.Transitions >= cfg.MaxTransitions {
					st.Capped = fmt.Sprintf("transition cap %d reached at depth %d", cfg.MaxTransitions, depth+1)
					st.States = int64(len(seen))
					return st
				}
				nh := make([]int, len(h)+1)
				copy(nh, h)
				nh[len(h)] = op
				s := sys.Exec(nh)
				st.Transitions++
				if s.Violation != "" {
					if cfg.OnViolation != nil {
						cfg.OnViolation(nh, s.Violation)
					}
					continue // do not extend a violating history
				}
				if s.Terminal {
					continue
				}
				if _, ok := seen[s.Key]; ok {
					continue
				}
				seen[s.Key] = struct{}{}
				if cfg.OnState != nil {
					cfg.OnState(s.Key, nh)
				}
				next = append(next, nh)
			}
		}
		st.PerDepth = append(st.PerDepth, int64(len(next)))
		st.Depth = depth + 1
		frontier = next
		if len(frontier) == 0 {
			break
		}
	}
	st.States = int64(len(seen))
	return st
}

// Hasher computes a canonical hash of an object graph by reflection, private
// fields included.  Field names listed in Skip are ignored (each skip must be
// justified where it is configured: merged states must have the same futures).
type Hasher struct {
	Skip map[string]bool
	h    interface {
		Write([]byte) (int, error)
		Sum64() uint64
	}
	seen map[unsafe.Pointer]bool
}

func NewHasher(skip ...string) *Hasher {
	m := map[string]bool{}
	for _, s := range skip {
		m[s] = true
	}
	return &Hasher{Skip: m, h: fnv.New64a(), seen: map[unsafe.Pointer]bool{}}
}

func (x *Hasher) Sum() uint64 { return x.h.Sum64() }

func (x *Hasher) Bytes(b []byte) {
	var l [8]byte
	n := uint64(len(b))
	for i := 0; i < 8; i++ {
		l[i] = byte(n >> (8 * i))
	}
	x.h.Write(l[:])
	x.h.Write(b)
}

func (x *Hasher) U64(v uint64) {
	var l [8]byte
	for i := 0; i < 8; i++ {
		l[i] = byte(v >> (8 * i))
	}
	x.h.Write(l[:])
}

func (x *Hasher) String(s string) { x.Bytes([]byte(s)) }

// Value hashes v (any Go value, typically a pointer to the object under test).
func (x *Hasher) Value(v any) { x.walk(reflect.ValueOf(v), "") }

func (x *Hasher) walk(v reflect.Value, name string) {
	switch v.Kind() {
	case reflect.Invalid:
		x.U64(0xdead)
	case reflect.Bool:
		if v.Bool() {
			x.U64(1)
		} else {
			x.U64(0)
		}
	case reflect.Int, reflect.Int8, reflect.Int16, reflect.Int32, reflect.Int64:
		x.U64(uint64(v.Int()))
	case reflect.Uint, reflect.Uint8, reflect.Uint16, reflect.Uint32, reflect.Uint64, reflect.Uintptr:
		x.U64(v.Uint())
	case reflect.Float32, reflect.Float64:
		x.U64(uint64(int64(v.Float() * 1e6)))
	case reflect.String:
		x.String(v.String())
	case reflect.Ptr:
		if v.IsNil() {
			x.U64(0)
			return
		}
		p := unsafe.Pointer(v.Pointer())
		if x.seen[p] {
			x.U64(0xc1c1e)
			return
		}
		x.seen[p] = true
		x.U64(1)
		x.walk(v.Elem(), name)
	case reflect.Interface:
		if v.IsNil() {
			x.U64(0)
			return
		}
		x.String(v.Elem().Type().String())
		x.walk(v.Elem(), name)
	case reflect.Struct:
		t := v.Type()
		for i := 0; i < v.NumField(); i++ {
			fn := t.Field(i).Name
			if x.Skip[fn] || x.Skip[t.Name()+"."+fn] {
				continue
			}
			x.String(fn)
			x.walk(v.Field(i), fn)
		}
	case reflect.Slice:
		if v.IsNil() {
			x.U64(0)
			return
		}
		x.U64(uint64(v.Len()) + 1)
		if v.Type().Elem().Kind() == reflect.Uint8 {
			n := v.Len()
			if n > 0 {
				b := unsafe.Slice((*byte)(unsafe.Pointer(v.Pointer())), n)
				x.h.Write(b)
			}
			return
		}
		for i := 0; i < v.Len(); i++ {
			x.walk(v.Index(i), name)
		}
	case reflect.Array:
		for i := 0; i < v.Len(); i++ {
			x.walk(v.Index(i), name)
		}
	case reflect.Map:
		// order-independent: xor of entry hashes
		var acc uint64
		it := v.MapRange()
		for it.Next() {
			sub := NewHasher()
			sub.Skip = x.Skip
			sub.walk(it.Key(), name)
			sub.walk(it.Value(), name)
			acc ^= sub.Sum()
		}
		x.U64(acc)
	case reflect.Func, reflect.Chan, reflect.UnsafePointer:
		// identity is not state
	}
}
