// Package vp8gen is a syntax-directed writer of VP8 key frames, written from
// RFC 6386 (boolean entropy encoder of section 7.3, frame header of section
// 9, mode trees of section 11, token trees of section 13).  Every frame it
// emits is valid by construction, including frames this package's encoder
// never produces (simple filter with deltas, per-segment absolute values,
// arbitrary mode and coefficient mixes, probability updates, 1-8 partitions).
// The format's constant probability tables come from the vendored reference
// decoder.
package vp8gen

import (
	"fmt"
	"strings"

	"github.com/deepteams/webp/internal/zzverif/ximage/vp8"
)

// ---- boolean entropy encoder (RFC 6386 section 7.3)

type boolEnc struct {
	out      []byte
	rng      uint32
	bottom   uint32
	bitCount int
}

func newBoolEnc() *boolEnc { return &boolEnc{rng: 255, bitCount: 24} }

func (e *boolEnc) carry() {
	i := len(e.out) - 1
	for i >= 0 && e.out[i] == 255 {
		e.out[i] = 0
		i--
	}
	if i >= 0 {
		e.out[i]++
	}
}

func (e *boolEnc) put(prob uint8, bit bool) {
	split := 1 + ((e.rng-1)*uint32(prob))>>8
	if bit {
		e.bottom += split
		e.rng -= split
	} else {
		e.rng = split
	}
	for e.rng < 128 {
		e.rng <<= 1
		if e.bottom&(1<<31) != 0 {
			e.carry()
		}
		e.bottom <<= 1
		e.bitCount--
		if e.bitCount == 0 {
			e.out = append(e.out, byte(e.bottom>>24))
			e.bottom &= 1<<24 - 1
			e.bitCount = 8
		}
	}
}

func (e *boolEnc) flush() []byte {
	c := e.bitCount
	v := e.bottom
	if v&(1<<uint(32-c)) != 0 {
		e.carry()
	}
	v <<= uint(c & 7)
	c >>= 3
	for c--; c >= 0; c-- {
		v <<= 8
	}
	for c = 3; c >= 0; c-- {
		e.out = append(e.out, byte(v>>24))
		v <<= 8
	}
	return e.out
}

func (e *boolEnc) lit(v uint32, n int) {
	for n > 0 {
		n--
		e.put(128, v>>uint(n)&1 == 1)
	}
}

// optInt writes the flag / magnitude / sign form used for deltas.
func (e *boolEnc) optInt(v, n int) {
	if v == 0 {
		e.put(128, false)
		return
	}
	e.put(128, true)
	a := v
	if a < 0 {
		a = -a
	}
	e.lit(uint32(a), n)
	e.put(128, v < 0)
}

// ---- frame description

const (
	PredDC = iota
	PredTM
	PredVE
	PredHE
	PredRD
	PredVR
	PredLD
	PredVL
	PredHD
	PredHU
)

type MB struct {
	Segment int
	Skip    bool // mb_skip_coeff (only meaningful when the frame uses skip probabilities)
	IsI4    bool
	Y16     int     // PredDC / PredVE / PredHE / PredTM
	Sub     [16]int // sub-block modes when IsI4
	UV      int
	// quantised levels in coding (zig-zag) order: 16 luma blocks, 4 U, 4 V, then the Y2 block
	Lv [25][16]int
}

type Frame struct {
	W, H              int
	ColorSpace, Clamp int
	UseSeg            bool
	SegUpdateMap      bool
	SegUpdateData     bool
	SegAbs            bool
	SegQuant          [4]int
	SegFilter         [4]int
	SegProb           [3]int // -1: not updated (255)
	FilterSimple      bool
	FilterLevel       int
	Sharpness         int
	LFDelta           bool
	LFDeltaUpdate     bool
	RefDelta          [4]int
	ModeDelta         [4]int
	PartBits          int
	QBase             int
	QDelta            [5]int // y1dc, y2dc, y2ac, uvdc, uvac
	ProbUpdates       map[[4]int]uint8
	UseSkip           bool
	SkipProb          int
	MBs               []MB
	Version           int
	// HScale, VScale: the two up-scaling hint bits stored above the 14-bit width and height
	// (decoders ignore them; every reader of the header must mask them off)
	HScale, VScale int
	// ZeroSpelling: 0 = blocks end with EOB after their last non-zero level; 1 = every block
	// spells its trailing zeros as DCT_0 tokens to position 15; 2 = every other block does
	ZeroSpelling int
}

func (f *Frame) MBW() int { return (f.W + 15) / 16 }
func (f *Frame) MBH() int { return (f.H + 15) / 16 }

var (
	predProb   = vp8.PredProbTable()
	defProb    = vp8.DefaultTokenProbTable()
	updateProb = vp8.TokenProbUpdateProbTable()
	bands      = [17]uint8{0, 1, 2, 3, 6, 4, 5, 6, 6, 6, 6, 6, 6, 6, 6, 7, 0}
	catProbs   = [4][]uint8{{173, 148, 140}, {176, 155, 140, 135}, {180, 157, 141, 134, 130}, {254, 254, 243, 230, 196, 177, 153, 140, 133, 130, 129}}
)

// writeBlock writes one 4x4 block's tokens; it returns 1 if any coefficient was coded.
// writeBlock writes one block of levels. With explicit set, the zeros after the
// last non-zero level are spelled as DCT_0 tokens up to position 15 instead of
// ending the block with EOB (both spellings are valid and decode to the same block).
func writeBlock(e *boolEnc, prob *[8][3][11]uint8, ctx int, lv *[16]int, first int, explicit bool) int {
	last := -1
	for i := first; i < 16; i++ {
		if lv[i] != 0 {
			last = i
		}
	}
	n := first
	p := &prob[bands[n]][ctx]
	if last < 0 {
		e.put(p[0], false)
		return 0
	}
	e.put(p[0], true)
	for n != 16 {
		v := lv[n]
		n++
		if v == 0 {
			e.put(p[1], false)
			p = &prob[bands[n]][0]
			continue
		}
		e.put(p[1], true)
		a := v
		if a < 0 {
			a = -a
		}
		if a == 1 {
			e.put(p[2], false)
			p = &prob[bands[n]][1]
		} else {
			e.put(p[2], true)
			switch {
			case a == 2:
				e.put(p[3], false)
				e.put(p[4], false)
			case a <= 4:
				e.put(p[3], false)
				e.put(p[4], true)
				e.put(p[5], a == 4)
			case a <= 6:
				e.put(p[3], true)
				e.put(p[6], false)
				e.put(p[7], false)
				e.put(159, a == 6)
			case a <= 10:
				e.put(p[3], true)
				e.put(p[6], false)
				e.put(p[7], true)
				e.put(165, (a-7)>>1&1 == 1)
				e.put(145, (a-7)&1 == 1)
			default:
				e.put(p[3], true)
				e.put(p[6], true)
				cat := 0
				switch {
				case a <= 18:
					cat = 0
				case a <= 34:
					cat = 1
				case a <= 66:
					cat = 2
				default:
					cat = 3
				}
				if a > 2114 {
					panic("vp8gen: coefficient level above 2114")
				}
				b1, b0 := cat>>1, cat&1
				e.put(p[8], b1 == 1)
				e.put(p[9+b1], b0 == 1)
				extra := a - (3 + (8 << uint(cat)))
				tab := catProbs[cat]
				for i := 0; i < len(tab); i++ {
					e.put(tab[i], extra>>uint(len(tab)-1-i)&1 == 1)
				}
			}
			p = &prob[bands[n]][2]
		}
		e.put(128, v < 0)
		if n == 16 {
			return 1
		}
		more := n-1 < last || explicit
		e.put(p[0], more)
		if !more {
			return 1
		}
	}
	return 1
}

// Encode serialises the frame (VP8 chunk payload).
func (f *Frame) Encode() []byte {
	mbw, mbh := f.MBW(), f.MBH()
	if len(f.MBs) != mbw*mbh {
		panic("vp8gen: wrong number of macroblocks")
	}
	blockNo := 0
	fp := newBoolEnc()
	fp.lit(uint32(f.ColorSpace), 1)
	fp.lit(uint32(f.Clamp), 1)
	// segment header
	fp.put(128, f.UseSeg)
	updateMap := f.UseSeg && f.SegUpdateMap
	if f.UseSeg {
		fp.put(128, f.SegUpdateMap)
		fp.put(128, f.SegUpdateData)
		if f.SegUpdateData {
			fp.put(128, f.SegAbs)
			for i := 0; i < 4; i++ {
				fp.optInt(f.SegQuant[i], 7)
			}
			for i := 0; i < 4; i++ {
				fp.optInt(f.SegFilter[i], 6)
			}
		}
		if f.SegUpdateMap {
			for i := 0; i < 3; i++ {
				if f.SegProb[i] >= 0 {
					fp.put(128, true)
					fp.lit(uint32(f.SegProb[i]), 8)
				} else {
					fp.put(128, false)
				}
			}
		}
	}
	// filter header
	fp.put(128, f.FilterSimple)
	fp.lit(uint32(f.FilterLevel), 6)
	fp.lit(uint32(f.Sharpness), 3)
	fp.put(128, f.LFDelta)
	if f.LFDelta {
		fp.put(128, f.LFDeltaUpdate)
		if f.LFDeltaUpdate {
			for i := 0; i < 4; i++ {
				fp.optInt(f.RefDelta[i], 6)
			}
			for i := 0; i < 4; i++ {
				fp.optInt(f.ModeDelta[i], 6)
			}
		}
	}
	fp.lit(uint32(f.PartBits), 2)
	// quantiser indices
	fp.lit(uint32(f.QBase), 7)
	for i := 0; i < 5; i++ {
		fp.optInt(f.QDelta[i], 4)
	}
	fp.put(128, false) // refresh_entropy_probs (ignored for still images)
	// token probability updates
	prob := defProb
	for i := 0; i < 4; i++ {
		for j := 0; j < 8; j++ {
			for k := 0; k < 3; k++ {
				for l := 0; l < 11; l++ {
					if v, ok := f.ProbUpdates[[4]int{i, j, k, l}]; ok {
						fp.put(updateProb[i][j][k][l], true)
						fp.lit(uint32(v), 8)
						prob[i][j][k][l] = v
					} else {
						fp.put(updateProb[i][j][k][l], false)
					}
				}
			}
		}
	}
	fp.put(128, f.UseSkip)
	if f.UseSkip {
		fp.lit(uint32(f.SkipProb), 8)
	}
	segProb := [3]uint8{255, 255, 255}
	for i := 0; i < 3; i++ {
		if updateMap && f.SegProb[i] >= 0 {
			segProb[i] = uint8(f.SegProb[i])
		}
	}
	// per-macroblock data
	nParts := 1 << uint(f.PartBits)
	parts := make([]*boolEnc, nParts)
	for i := range parts {
		parts[i] = newBoolEnc()
	}
	type ctxMB struct {
		pred  [4]int // sub-block modes along the edge
		nzY16 int
		nz    [8]int // 4 luma + 2 U + 2 V flags along the edge
	}
	up := make([]ctxMB, mbw)
	for mby := 0; mby < mbh; mby++ {
		var left ctxMB
		tp := parts[mby&(nParts-1)]
		for mbx := 0; mbx < mbw; mbx++ {
			mb := &f.MBs[mby*mbw+mbx]
			if updateMap {
				s := mb.Segment
				if s < 2 {
					fp.put(segProb[0], false)
					fp.put(segProb[1], s == 1)
				} else {
					fp.put(segProb[0], true)
					fp.put(segProb[2], s == 3)
				}
			}
			skip := false
			if f.UseSkip {
				skip = mb.Skip
				fp.put(uint8(f.SkipProb), skip)
			}
			// modes
			fp.put(145, !mb.IsI4)
			if !mb.IsI4 {
				switch mb.Y16 {
				case PredDC:
					fp.put(156, false)
					fp.put(163, false)
				case PredVE:
					fp.put(156, false)
					fp.put(163, true)
				case PredHE:
					fp.put(156, true)
					fp.put(128, false)
				case PredTM:
					fp.put(156, true)
					fp.put(128, true)
				default:
					panic("vp8gen: bad 16x16 mode")
				}
				for i := 0; i < 4; i++ {
					up[mbx].pred[i] = mb.Y16
					left.pred[i] = mb.Y16
				}
			} else {
				for j := 0; j < 4; j++ {
					p := left.pred[j]
					for i := 0; i < 4; i++ {
						pr := &predProb[up[mbx].pred[i]][p]
						m := mb.Sub[j*4+i]
						writeSubMode(fp, pr, m)
						p = m
						up[mbx].pred[i] = p
					}
					left.pred[j] = p
				}
			}
			switch mb.UV {
			case PredDC:
				fp.put(142, false)
			case PredVE:
				fp.put(142, true)
				fp.put(114, false)
			case PredHE:
				fp.put(142, true)
				fp.put(114, true)
				fp.put(183, false)
			case PredTM:
				fp.put(142, true)
				fp.put(114, true)
				fp.put(183, true)
			default:
				panic("vp8gen: bad chroma mode")
			}
			// residuals
			if skip {
				if !mb.IsI4 {
					left.nzY16 = 0
					up[mbx].nzY16 = 0
				}
				left.nz = [8]int{}
				up[mbx].nz = [8]int{}
				continue
			}
			plane := 3
			first := 0
			explicit := func() bool {
				blockNo++
				return f.ZeroSpelling == 1 || f.ZeroSpelling == 2 && blockNo%2 == 0
			}
			if !mb.IsI4 {
				nz := writeBlock(tp, &prob[1], left.nzY16+up[mbx].nzY16, &mb.Lv[24], 0, explicit())
				left.nzY16, up[mbx].nzY16 = nz, nz
				plane, first = 0, 1
			}
			for y := 0; y < 4; y++ {
				nz := left.nz[y]
				for x := 0; x < 4; x++ {
					nz = writeBlock(tp, &prob[plane], nz+up[mbx].nz[x], &mb.Lv[y*4+x], first, explicit())
					up[mbx].nz[x] = nz
				}
				left.nz[y] = nz
			}
			for c := 0; c < 4; c += 2 {
				for y := 0; y < 2; y++ {
					nz := left.nz[4+y+c]
					for x := 0; x < 2; x++ {
						nz = writeBlock(tp, &prob[2], nz+up[mbx].nz[4+x+c], &mb.Lv[16+c*2+y*2+x], 0, explicit())
						up[mbx].nz[4+x+c] = nz
					}
					left.nz[4+y+c] = nz
				}
			}
		}
	}
	part0 := fp.flush()
	var tokenParts [][]byte
	for _, p := range parts {
		tokenParts = append(tokenParts, p.flush())
	}
	// assemble
	tag := uint32(0) | uint32(f.Version&7)<<1 | 1<<4 | uint32(len(part0))<<5
	out := []byte{byte(tag), byte(tag >> 8), byte(tag >> 16), 0x9d, 0x01, 0x2a,
		byte(f.W), byte(f.W>>8&0x3f) | byte(f.HScale&3)<<6, byte(f.H), byte(f.H>>8&0x3f) | byte(f.VScale&3)<<6}
	out = append(out, part0...)
	for i := 0; i < nParts-1; i++ {
		n := len(tokenParts[i])
		out = append(out, byte(n), byte(n>>8), byte(n>>16))
	}
	for _, p := range tokenParts {
		out = append(out, p...)
	}
	return out
}

// writeSubMode writes a 4x4 sub-block mode with the key-frame tree.
func writeSubMode(e *boolEnc, p *[9]uint8, m int) {
	switch m {
	case PredDC:
		e.put(p[0], false)
	case PredTM:
		e.put(p[0], true)
		e.put(p[1], false)
	case PredVE:
		e.put(p[0], true)
		e.put(p[1], true)
		e.put(p[2], false)
	case PredHE, PredRD, PredVR:
		e.put(p[0], true)
		e.put(p[1], true)
		e.put(p[2], true)
		e.put(p[3], false)
		switch m {
		case PredHE:
			e.put(p[4], false)
		case PredRD:
			e.put(p[4], true)
			e.put(p[5], false)
		default:
			e.put(p[4], true)
			e.put(p[5], true)
		}
	default:
		e.put(p[0], true)
		e.put(p[1], true)
		e.put(p[2], true)
		e.put(p[3], true)
		switch m {
		case PredLD:
			e.put(p[6], false)
		case PredVL:
			e.put(p[6], true)
			e.put(p[7], false)
		case PredHD:
			e.put(p[6], true)
			e.put(p[7], true)
			e.put(p[8], false)
		case PredHU:
			e.put(p[6], true)
			e.put(p[7], true)
			e.put(p[8], true)
		default:
			panic("vp8gen: bad sub-block mode")
		}
	}
}

// ---- generator driven by picks

type Picker interface {
	Pick(n int, label string) int
	Free(n int, label string) int
}

// Dims is the dimension menu (cropping; 1-3 macroblocks per side).
var Dims = [][2]int{{16, 16}, {1, 1}, {15, 17}, {17, 16}, {33, 17}, {32, 32}, {31, 1}, {16, 33}, {1, 18}, {2, 3}}

// Generate builds one key frame from the picker's decisions.
func Generate(pk Picker, seed int64) (*Frame, string) {
	var desc []string
	note := func(format string, a ...any) { desc = append(desc, fmt.Sprintf(format, a...)) }
	s := uint32(seed)*2654435761 + 12345
	rnd := func() int {
		s ^= s << 13
		s ^= s >> 17
		s ^= s << 5
		return int(s >> 8)
	}
	d := Dims[pk.Free(len(Dims), "dims")]
	f := &Frame{W: d[0], H: d[1], SegProb: [3]int{-1, -1, -1}}
	mbw, mbh := f.MBW(), f.MBH()
	f.MBs = make([]MB, mbw*mbh)
	f.ColorSpace = pk.Pick(2, "colorspace")
	f.Clamp = pk.Pick(2, "clamp")
	f.Version = pk.Pick(4, "version")
	// quantiser
	f.QBase = []int{20, 0, 1, 63, 120, 127}[pk.Pick(6, "qbase")]
	dn := []string{"y1dc", "y2dc", "y2ac", "uvdc", "uvac"}
	for i := 0; i < 5; i++ {
		f.QDelta[i] = []int{0, 15, -15, 7}[pk.Pick(4, "qdelta-"+dn[i])]
	}
	// segments
	switch pk.Pick(5, "segments") {
	case 1: // map only
		f.UseSeg, f.SegUpdateMap = true, true
		f.SegProb = [3]int{128, 100, 200}
	case 2: // map + delta data
		f.UseSeg, f.SegUpdateMap, f.SegUpdateData = true, true, true
		f.SegProb = [3]int{90, -1, 30}
		f.SegQuant = [4]int{0, 20, -20, 7}
		f.SegFilter = [4]int{0, 10, -10, 63}
	case 3: // map + absolute data
		f.UseSeg, f.SegUpdateMap, f.SegUpdateData, f.SegAbs = true, true, true, true
		f.SegProb = [3]int{128, 128, 128}
		f.SegQuant = [4]int{0, 127, 60, 3}
		f.SegFilter = [4]int{0, 63, 20, 1}
	case 4: // data without a map: every macroblock is segment 0
		f.UseSeg, f.SegUpdateData = true, true
		f.SegQuant = [4]int{15, 1, 2, 3}
		f.SegFilter = [4]int{9, 1, 2, 3}
	}
	for i := range f.MBs {
		if f.SegUpdateMap {
			f.MBs[i].Segment = (i + i/mbw) % 4
		}
	}
	// loop filter
	f.FilterLevel = []int{0, 1, 8, 32, 63}[pk.Pick(5, "filter-level")]
	f.FilterSimple = pk.Pick(2, "filter-simple") == 1
	f.Sharpness = []int{0, 3, 7}[pk.Pick(3, "sharpness")]
	switch pk.Pick(3, "lf-delta") {
	case 1:
		f.LFDelta = true
	case 2:
		f.LFDelta, f.LFDeltaUpdate = true, true
		f.RefDelta = [4]int{10, -3, 0, 0}
		f.ModeDelta = [4]int{-20, 5, 0, 0}
	}
	f.PartBits = pk.Pick(4, "partitions")
	// modes
	ym := pk.Pick(8, "ymode")     // 0 DC, 1 VE, 2 HE, 3 TM, 4 cycle, 5 all 4x4, 6 alternate 16x16 / 4x4, 7 4x4 with 16x16 neighbours
	sub := pk.Pick(11, "submode") // 0 cycle through all ten; 1..10 constant
	uvm := pk.Pick(5, "uvmode")   // 0 DC, 1 VE, 2 HE, 3 TM, 4 cycle
	y16 := []int{PredDC, PredVE, PredHE, PredTM}
	for i := range f.MBs {
		mb := &f.MBs[i]
		switch ym {
		case 0, 1, 2, 3:
			mb.Y16 = y16[ym]
		case 4:
			mb.Y16 = y16[i%4]
		case 5:
			mb.IsI4 = true
		case 6:
			mb.IsI4 = i%2 == 1
			mb.Y16 = y16[(i/2)%4]
		case 7:
			mb.IsI4 = i%3 == 0
			mb.Y16 = y16[(i+1)%4]
		}
		for k := 0; k < 16; k++ {
			if sub == 0 {
				mb.Sub[k] = (k + i*3) % 10
			} else {
				mb.Sub[k] = sub - 1
			}
		}
		if uvm < 4 {
			mb.UV = y16[uvm]
		} else {
			mb.UV = y16[(i+2)%4]
		}
	}
	// coefficients
	f.ZeroSpelling = pk.Pick(3, "zero-spelling")
	f.HScale = pk.Pick(4, "hscale")
	f.VScale = pk.Pick(4, "vscale")
	cp := pk.Pick(11, "coeffs")
	mag := []int{1, 2, 3, 4, 5, 7, 11, 19, 35, 67, 2114}[pk.Pick(11, "magnitude")]
	// keep |level * quantiser| inside 16 bits (coefficients are stored as int16)
	maxLevel := 32767 / 450
	if f.QBase <= 1 && f.QDelta == [5]int{} && !f.UseSeg {
		maxLevel = 2114
	}
	if mag > maxLevel {
		mag = maxLevel
	}
	neg := pk.Pick(2, "sign") == 1
	val := func(k int) int {
		v := mag
		if neg != (k%3 == 1) {
			v = -v
		}
		return v
	}
	for i := range f.MBs {
		mb := &f.MBs[i]
		y2 := 24
		switch cp {
		case 0: // no coefficients
		case 1: // luma DC only
			if mb.IsI4 {
				mb.Lv[i%16][0] = val(i)
			} else {
				mb.Lv[y2][0] = val(i)
			}
		case 2: // one AC coefficient, position varies with the macroblock
			mb.Lv[(i*5)%16][1+(i*7)%15] = val(i)
		case 3: // full luma blocks of small values
			for b := 0; b < 16; b++ {
				for n := 0; n < 16; n++ {
					mb.Lv[b][n] = (n%3 - 1) * (1 + (b+n)%2)
					if mb.Lv[b][n] == 0 && n == 15 {
						mb.Lv[b][n] = 1
					}
				}
			}
			if !mb.IsI4 {
				for n := 0; n < 16; n++ {
					mb.Lv[y2][n] = val(n) / (1 + n)
				}
			}
		case 4: // chroma U DC only
			mb.Lv[16+i%4][0] = val(i)
		case 5: // chroma V AC only (no luma, no U)
			mb.Lv[20+i%4][1+i%15] = val(i)
		case 6: // Y2 only, all sixteen coefficients
			if !mb.IsI4 {
				for n := 0; n < 16; n++ {
					mb.Lv[y2][n] = val(n)
				}
			} else {
				mb.Lv[5][0] = val(i)
			}
		case 7: // DC + one AC in every block
			for b := 0; b < 24; b++ {
				mb.Lv[b][0] = val(b)
				mb.Lv[b][2+b%13] = -val(b + 1)
			}
			if !mb.IsI4 {
				mb.Lv[y2][0] = val(i)
				mb.Lv[y2][15] = 1
			}
		case 8: // sparse pseudo-random
			for b := 0; b < 25; b++ {
				for n := 0; n < 16; n++ {
					if rnd()%7 == 0 {
						mb.Lv[b][n] = rnd()%(2*mag+1) - mag
					}
				}
			}
		case 9: // coefficients only in every other macroblock (zero neighbours: contexts, inner-edge filter skip)
			if i%2 == 0 {
				mb.Lv[0][0] = val(i)
				mb.Lv[23][15] = val(i + 1)
				if !mb.IsI4 {
					mb.Lv[y2][0] = val(i)
				}
			}
		case 10: // last coefficient only (position 15) in luma and chroma
			for b := 0; b < 24; b += 5 {
				mb.Lv[b][15] = val(b)
			}
		}
		if !mb.IsI4 {
			// with a Y2 block the luma DC positions are not coded
			for b := 0; b < 16; b++ {
				mb.Lv[b][0] = 0
			}
		}
	}
	// skip flags
	switch pk.Pick(4, "skip") {
	case 1: // skip probabilities on, flag set exactly where nothing is coded
		f.UseSkip, f.SkipProb = true, 200
	case 2: // on, but never flagged: all-zero macroblocks are coded explicitly
		f.UseSkip, f.SkipProb = true, 1
	case 3: // on, flag set where nothing is coded, extreme probability
		f.UseSkip, f.SkipProb = true, 255
	}
	if f.UseSkip && f.SkipProb != 1 {
		for i := range f.MBs {
			mb := &f.MBs[i]
			empty := true
			for b := 0; b < 25 && empty; b++ {
				if b == 24 && mb.IsI4 {
					continue
				}
				for n := 0; n < 16; n++ {
					if mb.Lv[b][n] != 0 {
						empty = false
					}
				}
			}
			mb.Skip = empty
		}
	}
	// coefficient probability updates
	switch pk.Pick(4, "prob-updates") {
	case 1:
		f.ProbUpdates = map[[4]int]uint8{{0, 1, 0, 0}: 200, {0, 1, 0, 1}: 30, {2, 0, 0, 0}: 1, {3, 0, 2, 2}: 255}
	case 2:
		f.ProbUpdates = map[[4]int]uint8{}
		for j := 0; j < 8; j++ {
			for k := 0; k < 3; k++ {
				for l := 0; l < 11; l++ {
					f.ProbUpdates[[4]int{3, j, k, l}] = 128
				}
			}
		}
	case 3:
		f.ProbUpdates = map[[4]int]uint8{}
		for i := 0; i < 4; i++ {
			for j := 0; j < 8; j++ {
				for k := 0; k < 3; k++ {
					for l := 0; l < 11; l++ {
						f.ProbUpdates[[4]int{i, j, k, l}] = uint8(1 + (i*97+j*31+k*7+l*13)%254)
					}
				}
			}
		}
	}
	note("%dx%d q=%d%v seg=%v/%v/%v filter=%d simple=%v sharp=%d lfdelta=%v/%v parts=%d ymode=%d sub=%d uv=%d coeffs=%d mag=%d neg=%v skip=%v/%d updates=%d cs=%d clamp=%d ver=%d",
		f.W, f.H, f.QBase, f.QDelta, f.UseSeg, f.SegUpdateMap, f.SegAbs, f.FilterLevel, f.FilterSimple, f.Sharpness, f.LFDelta, f.LFDeltaUpdate, 1<<uint(f.PartBits), ym, sub, uvm, cp, mag, neg, f.UseSkip, f.SkipProb, len(f.ProbUpdates), f.ColorSpace, f.Clamp, f.Version)
	return f, strings.Join(desc, "; ")
}
