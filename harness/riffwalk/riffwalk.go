// Package riffwalk is the harness's own RIFF/WebP container parser, strict
// validator and writer, written from the container specification
// (developers.google.com/speed/webp/docs/riff_container) and RFC 6386 /
// the VP8L specification for the bitstream headers.  It shares no code with
// deepteams/webp and serves as the neutral third parser.
package riffwalk

import (
	"encoding/binary"
	"errors"
	"fmt"
)

// VP8X flag bits.
const (
	FlagAnim  = 0x02
	FlagXMP   = 0x04
	FlagEXIF  = 0x08
	FlagAlpha = 0x10
	FlagICC   = 0x20
)

type Chunk struct {
	FourCC string
	Off    int // offset of the chunk header in the file (or in the ANMF payload)
	Size   int // declared payload size
	Data   []byte
	PadOK  bool // even size, or pad byte present and zero
}

type VP8Info struct {
	KeyFrame       bool
	Version        int
	Show           bool
	Part0Len       int
	W, H           int
	XScale, YScale int
	NumPartitions  int
	PartSizes      []int // sizes of partitions 1..n (last = remainder)
	ColorSpace     int
	Clamp          int
	Segments       bool
	FilterSimple   bool
	FilterLevel    int
	Sharpness      int
	Err            string
}

type VP8LInfo struct {
	W, H    int
	Alpha   bool
	Version int
	Err     string
}

type Frame struct {
	X, Y, W, H int
	Duration   int
	NoBlend    bool // blending method bit: true = do not blend
	Dispose    bool // dispose to background
	HasALPH    bool
	Alpha      []byte // ALPH payload (may be empty when HasALPH)
	Bitstream  []byte // VP8 / VP8L payload
	Lossless   bool
	VP8        *VP8Info
	VP8L       *VP8LInfo
	Chunks     []Chunk // sub-chunks in order (ANMF) or nil
}

// BitW/BitH are the dimensions the bitstream header declares.
func (f *Frame) BitW() int {
	if f.Lossless && f.VP8L != nil {
		return f.VP8L.W
	}
	if f.VP8 != nil {
		return f.VP8.W
	}
	return 0
}
func (f *Frame) BitH() int {
	if f.Lossless && f.VP8L != nil {
		return f.VP8L.H
	}
	if f.VP8 != nil {
		return f.VP8.H
	}
	return 0
}

type File struct {
	Size                    int
	RiffSize                uint32
	Chunks                  []Chunk
	HasVP8X                 bool
	Flags                   byte
	CanvasW                 int
	CanvasH                 int
	HasICC, HasEXIF, HasXMP bool
	ICC, EXIF, XMP          []byte
	HasANIM                 bool
	Loop                    int
	BG                      uint32
	Frames                  []Frame
	Animated                bool // at least one ANMF chunk
	Problems                []string
}

func (f *File) prob(format string, a ...any) {
	f.Problems = append(f.Problems, fmt.Sprintf(format, a...))
}

var ErrNotWebP = errors.New("riffwalk: not a RIFF/WEBP file")

func le24(b []byte) int { return int(b[0]) | int(b[1])<<8 | int(b[2])<<16 }

// chunks splits b into chunks; it stops at the first chunk that does not fit.
func chunks(b []byte, base int) (out []Chunk, rest int, problems []string) {
	off := 0
	for off+8 <= len(b) {
		sz := int(binary.LittleEndian.Uint32(b[off+4:]))
		if sz < 0 || off+8+sz > len(b) {
			problems = append(problems, fmt.Sprintf("chunk %q at %d: size %d exceeds container", b[off:off+4], base+off, uint32(sz)))
			return out, off, problems
		}
		c := Chunk{FourCC: string(b[off : off+4]), Off: base + off, Size: sz, Data: b[off+8 : off+8+sz], PadOK: true}
		next := off + 8 + sz
		if sz&1 == 1 {
			if next >= len(b) {
				c.PadOK = false
				problems = append(problems, fmt.Sprintf("chunk %q at %d: odd size %d without pad byte", c.FourCC, c.Off, sz))
			} else {
				if b[next] != 0 {
					c.PadOK = false
					problems = append(problems, fmt.Sprintf("chunk %q at %d: pad byte is %#x, must be 0", c.FourCC, c.Off, b[next]))
				}
				next++
			}
		}
		out = append(out, c)
		off = next
	}
	if off != len(b) {
		problems = append(problems, fmt.Sprintf("%d trailing byte(s) at %d do not form a chunk", len(b)-off, base+off))
	}
	return out, off, problems
}

// Parse reads a complete file.  A non-nil error means the bytes are not
// parseable as RIFF/WEBP at all; conformance issues go to File.Problems.
func Parse(data []byte) (*File, error) {
	f := &File{Size: len(data)}
	if len(data) < 12 || string(data[0:4]) != "RIFF" || string(data[8:12]) != "WEBP" {
		return nil, ErrNotWebP
	}
	f.RiffSize = binary.LittleEndian.Uint32(data[4:])
	if int64(f.RiffSize)+8 != int64(len(data)) {
		f.prob("RIFF size field %d but file has %d bytes (expected size field %d)", f.RiffSize, len(data), len(data)-8)
	}
	if f.RiffSize&1 == 1 {
		f.prob("RIFF size %d is odd", f.RiffSize)
	}
	end := len(data)
	if int64(f.RiffSize)+8 < int64(end) {
		end = int(f.RiffSize) + 8
	}
	if end < 12 {
		return nil, ErrNotWebP
	}
	cs, _, probs := chunks(data[12:end], 12)
	f.Chunks = cs
	f.Problems = append(f.Problems, probs...)
	if len(cs) == 0 {
		return f, errors.New("riffwalk: no chunks")
	}
	switch cs[0].FourCC {
	case "VP8 ", "VP8L":
		if len(cs) != 1 {
			f.prob("simple file has %d chunks, expected exactly one", len(cs))
		}
		fr := Frame{Bitstream: cs[0].Data, Lossless: cs[0].FourCC == "VP8L"}
		fr.parseBitstream()
		fr.W, fr.H = fr.BitW(), fr.BitH()
		f.CanvasW, f.CanvasH = fr.W, fr.H
		f.Frames = []Frame{fr}
		return f, nil
	case "VP8X":
	default:
		return f, fmt.Errorf("riffwalk: first chunk is %q", cs[0].FourCC)
	}
	f.HasVP8X = true
	x := cs[0]
	if x.Size != 10 {
		f.prob("VP8X chunk size %d, must be 10", x.Size)
		if x.Size < 10 {
			return f, errors.New("riffwalk: short VP8X")
		}
	}
	f.Flags = x.Data[0]
	if f.Flags&^byte(FlagAnim|FlagXMP|FlagEXIF|FlagAlpha|FlagICC) != 0 {
		f.prob("VP8X reserved flag bits set: %#x", f.Flags)
	}
	if x.Data[1] != 0 || x.Data[2] != 0 || x.Data[3] != 0 {
		f.prob("VP8X reserved bytes not zero")
	}
	f.CanvasW = le24(x.Data[4:]) + 1
	f.CanvasH = le24(x.Data[7:]) + 1
	if uint64(f.CanvasW)*uint64(f.CanvasH) > 1<<32-1 {
		f.prob("canvas %dx%d exceeds 2^32-1 pixels", f.CanvasW, f.CanvasH)
	}
	// stage: 0 after VP8X, 1 after ICCP, 2 after ANIM, 3 in image data, 4 after EXIF, 5 after XMP
	var still *Frame
	sawImage := false
	for i := 1; i < len(cs); i++ {
		c := cs[i]
		switch c.FourCC {
		case "VP8X":
			f.prob("second VP8X chunk at %d", c.Off)
		case "ICCP":
			if f.HasICC {
				f.prob("duplicate ICCP")
				continue
			}
			if sawImage || f.HasANIM || f.HasEXIF || f.HasXMP {
				f.prob("ICCP chunk at %d is not before ANIM / image data", c.Off)
			}
			f.HasICC, f.ICC = true, c.Data
		case "ANIM":
			if f.HasANIM {
				f.prob("duplicate ANIM")
				continue
			}
			if sawImage {
				f.prob("ANIM chunk at %d after image data", c.Off)
			}
			if c.Size != 6 {
				f.prob("ANIM chunk size %d, must be 6", c.Size)
				if c.Size < 6 {
					continue
				}
			}
			f.HasANIM = true
			f.BG = binary.LittleEndian.Uint32(c.Data)
			f.Loop = int(binary.LittleEndian.Uint16(c.Data[4:]))
		case "ANMF":
			sawImage = true
			f.Animated = true
			if f.HasEXIF || f.HasXMP {
				f.prob("ANMF at %d after EXIF/XMP", c.Off)
			}
			if c.Size < 16 {
				f.prob("ANMF at %d: size %d < 16", c.Off, c.Size)
				continue
			}
			fr := Frame{
				X: 2 * le24(c.Data[0:]), Y: 2 * le24(c.Data[3:]),
				W: le24(c.Data[6:]) + 1, H: le24(c.Data[9:]) + 1,
				Duration: le24(c.Data[12:]),
				NoBlend:  c.Data[15]&2 != 0, Dispose: c.Data[15]&1 != 0,
			}
			if c.Data[15]&^3 != 0 {
				f.prob("ANMF at %d: reserved bits set %#x", c.Off, c.Data[15])
			}
			sub, _, probs := chunks(c.Data[16:], c.Off+8+16)
			for _, p := range probs {
				f.prob("in ANMF at %d: %s", c.Off, p)
			}
			fr.Chunks = sub
			gotImg := false
			for _, s := range sub {
				switch s.FourCC {
				case "ALPH":
					if gotImg {
						f.prob("ANMF at %d: ALPH after the bitstream", c.Off)
					}
					if fr.HasALPH {
						f.prob("ANMF at %d: duplicate ALPH", c.Off)
						continue
					}
					fr.HasALPH, fr.Alpha = true, s.Data
				case "VP8 ", "VP8L":
					if gotImg {
						f.prob("ANMF at %d: second bitstream chunk", c.Off)
						continue
					}
					gotImg = true
					fr.Bitstream = s.Data
					fr.Lossless = s.FourCC == "VP8L"
					if fr.Lossless && fr.HasALPH {
						f.prob("ANMF at %d: ALPH together with VP8L", c.Off)
					}
				case "ANMF", "ANIM", "VP8X", "ICCP", "EXIF", "XMP ":
					f.prob("ANMF at %d: contains %q", c.Off, s.FourCC)
				}
			}
			if !gotImg {
				f.prob("ANMF at %d: no bitstream", c.Off)
			} else {
				fr.parseBitstream()
				if fr.BitW() != fr.W || fr.BitH() != fr.H {
					f.prob("ANMF at %d: frame %dx%d but bitstream %dx%d", c.Off, fr.W, fr.H, fr.BitW(), fr.BitH())
				}
			}
			if fr.X+fr.W > f.CanvasW || fr.Y+fr.H > f.CanvasH {
				f.prob("ANMF at %d: frame (%d,%d)+%dx%d outside canvas %dx%d", c.Off, fr.X, fr.Y, fr.W, fr.H, f.CanvasW, f.CanvasH)
			}
			f.Frames = append(f.Frames, fr)
		case "ALPH":
			if sawImage {
				f.prob("ALPH at %d after image data", c.Off)
				continue
			}
			if still != nil && still.HasALPH {
				f.prob("duplicate ALPH")
				continue
			}
			if still == nil {
				still = &Frame{}
			}
			still.HasALPH, still.Alpha = true, c.Data
			if f.HasEXIF || f.HasXMP {
				f.prob("ALPH at %d after EXIF/XMP", c.Off)
			}
		case "VP8 ", "VP8L":
			if sawImage {
				f.prob("second image chunk %q at %d", c.FourCC, c.Off)
				continue
			}
			sawImage = true
			if f.HasEXIF || f.HasXMP {
				f.prob("image data at %d after EXIF/XMP", c.Off)
			}
			if still == nil {
				still = &Frame{}
			}
			still.Bitstream = c.Data
			still.Lossless = c.FourCC == "VP8L"
			if still.Lossless && still.HasALPH {
				f.prob("ALPH together with VP8L")
			}
			still.parseBitstream()
			still.W, still.H = still.BitW(), still.BitH()
			f.Frames = append(f.Frames, *still)
		case "EXIF":
			if f.HasEXIF {
				f.prob("duplicate EXIF")
				continue
			}
			if !sawImage {
				f.prob("EXIF at %d before image data", c.Off)
			}
			if f.HasXMP {
				f.prob("EXIF at %d after XMP", c.Off)
			}
			f.HasEXIF, f.EXIF = true, c.Data
		case "XMP ":
			if f.HasXMP {
				f.prob("duplicate XMP")
				continue
			}
			if !sawImage {
				f.prob("XMP at %d before image data", c.Off)
			}
			f.HasXMP, f.XMP = true, c.Data
		}
	}
	// flags <=> chunks
	flag := func(bit byte, name string, present bool) {
		if (f.Flags&bit != 0) != present {
			f.prob("VP8X %s flag is %v but chunk present is %v", name, f.Flags&bit != 0, present)
		}
	}
	flag(FlagICC, "ICC", f.HasICC)
	flag(FlagEXIF, "EXIF", f.HasEXIF)
	flag(FlagXMP, "XMP", f.HasXMP)
	flag(FlagAnim, "animation", f.Animated)
	if f.Animated != f.HasANIM {
		f.prob("ANIM chunk present %v but ANMF frames present %v", f.HasANIM, f.Animated)
	}
	if f.Animated && still != nil && len(still.Bitstream) > 0 {
		f.prob("both ANMF frames and a still image chunk")
	}
	if !sawImage {
		f.prob("no image data")
	}
	if !f.Animated && len(f.Frames) == 1 {
		fr := &f.Frames[0]
		if fr.W != 0 && (fr.W != f.CanvasW || fr.H != f.CanvasH) {
			f.prob("still image %dx%d but canvas %dx%d", fr.W, fr.H, f.CanvasW, f.CanvasH)
		}
	}
	return f, nil
}

// AnyAlphaSignalled reports whether any frame carries ALPH or a VP8L alpha bit.
func (f *File) AnyAlphaSignalled() bool {
	for i := range f.Frames {
		fr := &f.Frames[i]
		if fr.HasALPH || fr.Lossless && fr.VP8L != nil && fr.VP8L.Alpha {
			return true
		}
	}
	return false
}

func (fr *Frame) parseBitstream() {
	if fr.Lossless {
		fr.VP8L = ParseVP8L(fr.Bitstream)
	} else {
		fr.VP8 = ParseVP8(fr.Bitstream)
	}
}

// BitstreamProblems lists header-level defects of the frame's bitstream.
func (fr *Frame) BitstreamProblems() []string {
	var out []string
	if fr.Lossless {
		if fr.VP8L == nil {
			return []string{"no VP8L header"}
		}
		if fr.VP8L.Err != "" {
			out = append(out, "VP8L: "+fr.VP8L.Err)
		}
		return out
	}
	if fr.VP8 == nil {
		return []string{"no VP8 header"}
	}
	v := fr.VP8
	if v.Err != "" {
		return append(out, "VP8: "+v.Err)
	}
	if !v.KeyFrame {
		out = append(out, "VP8: not a key frame")
	}
	if !v.Show {
		out = append(out, "VP8: show_frame is 0")
	}
	if v.Version > 3 {
		out = append(out, fmt.Sprintf("VP8: version %d", v.Version))
	}
	return out
}

// ParseVP8L reads the 5-byte VP8L header.
func ParseVP8L(b []byte) *VP8LInfo {
	v := &VP8LInfo{}
	if len(b) < 5 {
		v.Err = "shorter than the 5-byte header"
		return v
	}
	if b[0] != 0x2f {
		v.Err = fmt.Sprintf("signature %#x, must be 0x2f", b[0])
		return v
	}
	bits := binary.LittleEndian.Uint32(b[1:])
	v.W = int(bits&0x3fff) + 1
	v.H = int(bits>>14&0x3fff) + 1
	v.Alpha = bits>>28&1 == 1
	v.Version = int(bits >> 29)
	if v.Version != 0 {
		v.Err = fmt.Sprintf("version %d, must be 0", v.Version)
	}
	return v
}

// --- minimal boolean decoder (RFC 6386 section 7) for the frame header

type boolDec struct {
	b     []byte
	pos   int
	value uint32
	rng   uint32
	bits  int
	eof   bool
}

func newBoolDec(b []byte) *boolDec {
	d := &boolDec{b: b, rng: 255}
	for i := 0; i < 2; i++ {
		d.value <<= 8
		if d.pos < len(b) {
			d.value |= uint32(b[d.pos])
			d.pos++
		} else {
			d.eof = true
		}
	}
	return d
}

func (d *boolDec) bit(prob uint32) int {
	split := 1 + ((d.rng-1)*prob)>>8
	bigsplit := split << 8
	var r int
	if d.value >= bigsplit {
		r = 1
		d.rng -= split
		d.value -= bigsplit
	} else {
		d.rng = split
	}
	for d.rng < 128 {
		d.value <<= 1
		d.rng <<= 1
		d.bits++
		if d.bits == 8 {
			d.bits = 0
			if d.pos < len(d.b) {
				d.value |= uint32(d.b[d.pos])
				d.pos++
			} else {
				d.eof = true
			}
		}
	}
	return r
}

func (d *boolDec) lit(n int) int {
	v := 0
	for ; n > 0; n-- {
		v = v<<1 | d.bit(128)
	}
	return v
}

// ParseVP8 reads the frame tag, the key-frame start code and dimensions, the
// part of partition 0 up to the token-partition count, and the partition table.
func ParseVP8(b []byte) *VP8Info {
	v := &VP8Info{}
	if len(b) < 10 {
		v.Err = "shorter than the 10-byte key-frame header"
		return v
	}
	tag := uint32(b[0]) | uint32(b[1])<<8 | uint32(b[2])<<16
	v.KeyFrame = tag&1 == 0
	v.Version = int(tag >> 1 & 7)
	v.Show = tag>>4&1 == 1
	v.Part0Len = int(tag >> 5)
	if !v.KeyFrame {
		v.Err = "not a key frame"
		return v
	}
	if b[3] != 0x9d || b[4] != 0x01 || b[5] != 0x2a {
		v.Err = "bad start code"
		return v
	}
	v.W = int(b[6]) | int(b[7]&0x3f)<<8
	v.XScale = int(b[7] >> 6)
	v.H = int(b[8]) | int(b[9]&0x3f)<<8
	v.YScale = int(b[9] >> 6)
	if v.W == 0 || v.H == 0 {
		v.Err = "zero dimension"
		return v
	}
	if 10+v.Part0Len > len(b) {
		v.Err = fmt.Sprintf("first partition length %d exceeds payload %d", v.Part0Len, len(b)-10)
		return v
	}
	d := newBoolDec(b[10 : 10+v.Part0Len])
	v.ColorSpace = d.lit(1)
	v.Clamp = d.lit(1)
	if d.lit(1) == 1 { // segmentation_enabled
		v.Segments = true
		updMap := d.lit(1)
		if d.lit(1) == 1 { // update_segment_feature_data
			d.lit(1)
			for i := 0; i < 4; i++ {
				if d.lit(1) == 1 {
					d.lit(7)
					d.lit(1)
				}
			}
			for i := 0; i < 4; i++ {
				if d.lit(1) == 1 {
					d.lit(6)
					d.lit(1)
				}
			}
		}
		if updMap == 1 {
			for i := 0; i < 3; i++ {
				if d.lit(1) == 1 {
					d.lit(8)
				}
			}
		}
	}
	v.FilterSimple = d.lit(1) == 1
	v.FilterLevel = d.lit(6)
	v.Sharpness = d.lit(3)
	if d.lit(1) == 1 { // loop_filter_adj_enable
		if d.lit(1) == 1 { // mode_ref_lf_delta_update
			for i := 0; i < 8; i++ {
				if d.lit(1) == 1 {
					d.lit(6)
					d.lit(1)
				}
			}
		}
	}
	v.NumPartitions = 1 << d.lit(2)
	if d.eof {
		v.Err = "first partition ends inside the frame header"
		return v
	}
	off := 10 + v.Part0Len
	tbl := 3 * (v.NumPartitions - 1)
	if off+tbl > len(b) {
		v.Err = fmt.Sprintf("partition table (%d bytes) exceeds payload", tbl)
		return v
	}
	rest := len(b) - off - tbl
	for i := 0; i < v.NumPartitions-1; i++ {
		sz := le24(b[off+3*i:])
		if sz > rest {
			v.Err = fmt.Sprintf("token partition %d size %d exceeds the %d bytes left", i, sz, rest)
			return v
		}
		v.PartSizes = append(v.PartSizes, sz)
		rest -= sz
	}
	v.PartSizes = append(v.PartSizes, rest)
	return v
}

// ------------------------------------------------------------------ writer

// ChunkBytes serialises one chunk (with pad byte).
func ChunkBytes(fourcc string, payload []byte) []byte {
	out := make([]byte, 8, 8+len(payload)+1)
	copy(out, fourcc)
	binary.LittleEndian.PutUint32(out[4:], uint32(len(payload)))
	out = append(out, payload...)
	if len(payload)&1 == 1 {
		out = append(out, 0)
	}
	return out
}

// RIFF wraps the chunk bytes in a RIFF/WEBP header.
func RIFF(body ...[]byte) []byte {
	n := 4
	for _, b := range body {
		n += len(b)
	}
	out := make([]byte, 12, 8+n)
	copy(out, "RIFF")
	binary.LittleEndian.PutUint32(out[4:], uint32(n))
	copy(out[8:], "WEBP")
	for _, b := range body {
		out = append(out, b...)
	}
	return out
}

func put24(b []byte, v int) { b[0], b[1], b[2] = byte(v), byte(v>>8), byte(v>>16) }

// VP8X builds the extended header chunk.
func VP8X(flags byte, w, h int) []byte {
	p := make([]byte, 10)
	p[0] = flags
	put24(p[4:], w-1)
	put24(p[7:], h-1)
	return ChunkBytes("VP8X", p)
}

// ANIM builds the animation parameter chunk.
func ANIM(bg uint32, loop int) []byte {
	p := make([]byte, 6)
	binary.LittleEndian.PutUint32(p, bg)
	binary.LittleEndian.PutUint16(p[4:], uint16(loop))
	return ChunkBytes("ANIM", p)
}

// ANMF builds one frame chunk; sub is the concatenated sub-chunk bytes.
func ANMF(x, y, w, h, dur int, noBlend, dispose bool, sub ...[]byte) []byte {
	p := make([]byte, 16)
	put24(p[0:], x/2)
	put24(p[3:], y/2)
	put24(p[6:], w-1)
	put24(p[9:], h-1)
	put24(p[12:], dur)
	if noBlend {
		p[15] |= 2
	}
	if dispose {
		p[15] |= 1
	}
	for _, s := range sub {
		p = append(p, s...)
	}
	return ChunkBytes("ANMF", p)
}
