// Package vp8lgen is a syntax-directed writer of VP8L (WebP lossless)
// bitstreams, written from the WebP Lossless Bitstream Specification.  Every
// stream it emits is syntactically valid by construction, including streams
// that no encoder emits (any transform order, entropy images coded with their
// own colour cache, simple / single-symbol / length-15 prefix codes, every
// distance code ...).  It does not compute the decoded picture: the oracle is
// an independent decoder.
package vp8lgen

import "sort"

// bitWriter packs bits least-significant-bit first.
type bitWriter struct {
	buf  []byte
	acc  uint64
	nacc uint
}

func (w *bitWriter) put(v uint32, n int) {
	if n == 0 {
		return
	}
	w.acc |= uint64(v&(1<<uint(n)-1)) << w.nacc
	w.nacc += uint(n)
	for w.nacc >= 8 {
		w.buf = append(w.buf, byte(w.acc))
		w.acc >>= 8
		w.nacc -= 8
	}
}

func (w *bitWriter) bytes() []byte {
	out := append([]byte(nil), w.buf...)
	if w.nacc > 0 {
		out = append(out, byte(w.acc))
	}
	return out
}

// code is a canonical prefix code.
type code struct {
	lens  []int
	codes []uint32
	used  int
	only  int // the single used symbol when used == 1
}

// lengthsFromFreq builds code lengths (<= maxLen) for the symbols with
// non-zero frequency; the code is complete when at least two symbols are used.
func lengthsFromFreq(freq []int, maxLen int) []int {
	n := len(freq)
	lens := make([]int, n)
	f := append([]int(nil), freq...)
	for {
		type node struct {
			w     int
			sym   int
			l, r  int
			depth int
		}
		var nodes []node
		var live []int
		for s, c := range f {
			if c > 0 {
				nodes = append(nodes, node{w: c, sym: s, l: -1, r: -1})
				live = append(live, len(nodes)-1)
			}
		}
		if len(live) == 0 {
			return lens
		}
		if len(live) == 1 {
			lens[nodes[live[0]].sym] = 1
			return lens
		}
		for len(live) > 1 {
			sort.SliceStable(live, func(i, j int) bool {
				if nodes[live[i]].w != nodes[live[j]].w {
					return nodes[live[i]].w < nodes[live[j]].w
				}
				return live[i] < live[j]
			})
			a, b := live[0], live[1]
			nodes = append(nodes, node{w: nodes[a].w + nodes[b].w, sym: -1, l: a, r: b})
			live = append([]int{len(nodes) - 1}, live[2:]...)
		}
		for i := range lens {
			lens[i] = 0
		}
		max := 0
		var walk func(i, d int)
		walk = func(i, d int) {
			if nodes[i].sym >= 0 {
				lens[nodes[i].sym] = d
				if d > max {
					max = d
				}
				return
			}
			walk(nodes[i].l, d+1)
			walk(nodes[i].r, d+1)
		}
		walk(live[0], 0)
		if max <= maxLen {
			return lens
		}
		// flatten the distribution and retry (libwebp does the same)
		for i := range f {
			if f[i] > 0 {
				f[i] = f[i]/2 + 1
			}
		}
	}
}

func newCode(lens []int) *code {
	c := &code{lens: lens, codes: make([]uint32, len(lens)), only: -1}
	var blCount [17]int
	for s, l := range lens {
		if l > 0 {
			blCount[l]++
			c.used++
			c.only = s
		}
	}
	if c.used != 1 {
		c.only = -1
	}
	var next [17]uint32
	var cur uint32
	for l := 1; l <= 15; l++ {
		cur = (cur + uint32(blCount[l-1])) << 1
		next[l] = cur
	}
	for s, l := range lens {
		if l > 0 {
			c.codes[s] = next[l]
			next[l]++
		}
	}
	return c
}

// write emits the code word of symbol s, most significant code bit first.
func (c *code) write(w *bitWriter, s int) {
	if c.used <= 1 {
		return // a code with a single used symbol takes zero bits
	}
	l := c.lens[s]
	if l == 0 {
		panic("vp8lgen: symbol without a code")
	}
	for i := l - 1; i >= 0; i-- {
		w.put(c.codes[s]>>uint(i)&1, 1)
	}
}

// prefixEncode splits a length or distance value (>= 1) into its prefix
// symbol, number of extra bits and extra-bits value (specification, section 5.2.2).
func prefixEncode(v int) (sym, nbits, extra int) {
	if v <= 4 {
		return v - 1, 0, 0
	}
	d := v - 1
	h := 0
	for (d >> uint(h+1)) != 0 {
		h++
	}
	s := (d >> uint(h-1)) & 1
	nbits = h - 1
	return 2*h + s, nbits, d & (1<<uint(nbits) - 1)
}

var codeLengthCodeOrder = [19]int{17, 18, 0, 1, 2, 3, 4, 5, 16, 6, 7, 8, 9, 10, 11, 12, 13, 14, 15}

// distanceMap is the specification's table of (dx, dy) for distance codes 1..120.
var distanceMap = [120][2]int{
	{0, 1}, {1, 0}, {1, 1}, {-1, 1}, {0, 2}, {2, 0}, {1, 2}, {-1, 2}, {2, 1}, {-2, 1}, {2, 2}, {-2, 2}, {0, 3}, {3, 0}, {1, 3}, {-1, 3}, {3, 1}, {-3, 1}, {2, 3}, {-2, 3}, {3, 2}, {-3, 2}, {0, 4}, {4, 0}, {1, 4}, {-1, 4}, {4, 1}, {-4, 1}, {3, 3}, {-3, 3}, {2, 4}, {-2, 4}, {4, 2}, {-4, 2}, {0, 5}, {3, 4}, {-3, 4}, {4, 3}, {-4, 3}, {5, 0}, {1, 5}, {-1, 5}, {5, 1}, {-5, 1}, {2, 5}, {-2, 5}, {5, 2}, {-5, 2}, {4, 4}, {-4, 4}, {3, 5}, {-3, 5}, {5, 3}, {-5, 3}, {0, 6}, {6, 0}, {1, 6}, {-1, 6}, {6, 1}, {-6, 1}, {2, 6}, {-2, 6}, {6, 2}, {-6, 2}, {4, 5}, {-4, 5}, {5, 4}, {-5, 4}, {3, 6}, {-3, 6}, {6, 3}, {-6, 3}, {0, 7}, {7, 0}, {1, 7}, {-1, 7}, {5, 5}, {-5, 5}, {7, 1}, {-7, 1}, {4, 6}, {-4, 6}, {6, 4}, {-6, 4}, {2, 7}, {-2, 7}, {7, 2}, {-7, 2}, {3, 7}, {-3, 7}, {7, 3}, {-7, 3}, {5, 6}, {-5, 6}, {6, 5}, {-6, 5}, {8, 0}, {4, 7}, {-4, 7}, {7, 4}, {-7, 4}, {8, 1}, {8, 2}, {6, 6}, {-6, 6}, {8, 3}, {5, 7}, {-5, 7}, {7, 5}, {-7, 5}, {8, 4}, {6, 7}, {-6, 7}, {7, 6}, {-7, 6}, {8, 5}, {7, 7}, {-7, 7}, {8, 6}, {8, 7},
}

// planeCodeToDistance applies the specification's mapping.
func planeCodeToDistance(xsize, code int) int {
	if code > 120 {
		return code - 120
	}
	d := distanceMap[code-1]
	dist := d[0] + d[1]*xsize
	if dist < 1 {
		dist = 1
	}
	return dist
}
