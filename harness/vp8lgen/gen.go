package vp8lgen

import (
	"fmt"
	"os"
	"strings"
)

// Picker supplies the generator's decisions.  Choice 0 is always the simplest
// syntax element; Pick alternatives count as deviations, Free ones do not.
type Picker interface {
	Pick(n int, label string) int
	Free(n int, label string) int
}

const (
	tPredictor  = 0
	tCrossColor = 1
	tSubGreen   = 2
	tColorIndex = 3
)

// TransformOrders lists all 65 ordered subsets of the four transforms.
var TransformOrders = func() [][]int {
	var out [][]int
	var rec func(cur []int, used int)
	rec = func(cur []int, used int) {
		out = append(out, append([]int(nil), cur...))
		for t := 0; t < 4; t++ {
			if used&(1<<uint(t)) == 0 {
				rec(append(cur, t), used|1<<uint(t))
			}
		}
	}
	rec(nil, 0)
	return out
}()

// Dims is the dimension menu.
// The last entry is the only picture large enough for copies whose length needs 10 extra bits.
var Dims = [][2]int{{4, 4}, {1, 1}, {2, 1}, {1, 17}, {2, 9}, {3, 5}, {5, 3}, {7, 2}, {8, 8}, {9, 4}, {16, 3}, {17, 2}, {33, 2}, {128, 160}}

var debugTokens = os.Getenv("VP8LGEN_DEBUG") != ""

type token struct {
	kind     int // 0 literal, 1 copy, 2 cache index
	argb     uint32
	length   int
	distCode int
	cacheIdx int
}

func cacheHash(argb uint32, bits int) int { return int((argb * 0x1e35a7bd) >> uint(32-bits)) }

type gen struct {
	pk   Picker
	w    *bitWriter
	desc []string
	seed uint32
}

func (g *gen) note(format string, a ...any) { g.desc = append(g.desc, fmt.Sprintf(format, a...)) }

func (g *gen) rnd() uint32 {
	g.seed ^= g.seed << 13
	g.seed ^= g.seed >> 17
	g.seed ^= g.seed << 5
	return g.seed
}

// Generate writes one VP8L bitstream (with its 5-byte header).
func Generate(pk Picker, seed int64) (stream []byte, desc string) {
	return GenerateSized(pk, seed, 0, 0)
}

// GenerateSized is Generate with the picture size imposed (w, h > 0), as for
// the headerless streams inside ALPH chunks.
func GenerateSized(pk Picker, seed int64, fw, fh int) (stream []byte, desc string) {
	g := &gen{pk: pk, w: &bitWriter{}, seed: uint32(seed)*2654435761 + 0x9e3779b9}
	if g.seed == 0 {
		g.seed = 1
	}
	order := TransformOrders[pk.Free(len(TransformOrders), "transforms")]
	dim := Dims[0]
	if fw > 0 && fh > 0 {
		dim = [2]int{fw, fh}
	} else {
		dim = Dims[pk.Free(len(Dims), "dims")]
	}
	w, h := dim[0], dim[1]
	tileBits := 2 + pk.Free(2, "tilebits")
	var names []string
	for _, t := range order {
		names = append(names, []string{"predictor", "cross-colour", "subtract-green", "colour-index"}[t])
	}
	g.note("%dx%d transforms=[%s] tilebits=%d", w, h, strings.Join(names, ","), tileBits)
	// header
	g.w.put(0x2f, 8)
	g.w.put(uint32(w-1), 14)
	g.w.put(uint32(h-1), 14)
	g.w.put(uint32(pk.Pick(2, "alpha-bit")), 1)
	g.w.put(0, 3)
	xsize := w
	paletteSize := 0
	for _, t := range order {
		g.w.put(1, 1)
		g.w.put(uint32(t), 2)
		switch t {
		case tPredictor:
			bits := tileBits + pk.Pick(3, "pred-tilebits") // 2..5
			g.w.put(uint32(bits-2), 3)
			tw, th := subSample(xsize, bits), subSample(h, bits)
			mode := pk.Pick(15, "pred-mode") // 0: cycle through all 14; 1..14: constant mode m-1
			px := make([]uint32, tw*th)
			for i := range px {
				m := i % 14
				if mode > 0 {
					m = mode - 1
				}
				px[i] = 0xff000000 | uint32(m)<<8
			}
			g.note("predictor bits=%d mode=%d", bits, mode)
			g.imageStream(px, tw, th, false)
		case tCrossColor:
			bits := tileBits + pk.Pick(3, "cc-tilebits")
			g.w.put(uint32(bits-2), 3)
			tw, th := subSample(xsize, bits), subSample(h, bits)
			mults := [][3]uint32{{0, 0, 0}, {1, 1, 1}, {0xff, 0xff, 0xff}, {127, 127, 127}, {0x80, 0x80, 0x80}, {0x55, 3, 0xc0}}
			mi := pk.Pick(len(mults)+1, "cc-mult")
			px := make([]uint32, tw*th)
			for i := range px {
				m := mults[i%len(mults)]
				if mi > 0 {
					m = mults[mi-1]
				}
				// red_to_blue in red, green_to_blue in green, green_to_red in blue
				px[i] = 0xff000000 | m[0]<<16 | m[1]<<8 | m[2]
			}
			g.note("cross-colour bits=%d mult=%d", bits, mi)
			g.imageStream(px, tw, th, false)
		case tSubGreen:
		case tColorIndex:
			sizes := []int{4, 1, 2, 3, 5, 16, 17, 255, 256}
			paletteSize = sizes[pk.Pick(len(sizes), "palette-size")]
			g.w.put(uint32(paletteSize-1), 8)
			px := make([]uint32, paletteSize)
			for i := range px {
				px[i] = g.rnd() // delta-coded entries: any value is valid
				if i%3 == 0 {
					px[i] |= 0xff000000
				}
			}
			g.note("palette size=%d", paletteSize)
			g.imageStream(px, paletteSize, 1, false)
			bits := 0
			switch {
			case paletteSize <= 2:
				bits = 3
			case paletteSize <= 4:
				bits = 2
			case paletteSize <= 16:
				bits = 1
			}
			xsize = subSample(xsize, bits)
		}
	}
	g.w.put(0, 1) // no more transforms
	// main image content in the coded domain
	content := pk.Pick(4, "content") // 0 few values, 1 noise, 2 row-repeating, 3 single value
	px := make([]uint32, xsize*h)
	vals := []uint32{0xff102030, 0x80ff0001, 0x00000000, 0xffffffff, 0x7f7f7f7f}
	for i := range px {
		switch content {
		case 0:
			px[i] = vals[(i+i/xsize)%len(vals)]
		case 1:
			px[i] = g.rnd()
		case 2:
			px[i] = vals[(i%xsize)%3] ^ uint32(i%xsize)<<8
		case 3:
			px[i] = 0xff336699
		}
	}
	if paletteSize > 0 {
		// only green is read (packed indices); by default every index is inside the palette
		beyond := pk.Pick(2, "index-beyond-palette") == 1
		ppb := 1 // pixels per byte of green
		bpp := 8
		switch {
		case paletteSize <= 2:
			ppb, bpp = 8, 1
		case paletteSize <= 4:
			ppb, bpp = 4, 2
		case paletteSize <= 16:
			ppb, bpp = 2, 4
		}
		for i := range px {
			var gbyte uint32
			for k := 0; k < ppb; k++ {
				idx := int(g.rnd()) & 0xffff % paletteSize
				if beyond && k == 0 && i%5 == 2 && paletteSize < 1<<uint(bpp) {
					idx = 1<<uint(bpp) - 1
				}
				if bpp == 8 && beyond && i%5 == 2 && paletteSize < 256 {
					idx = 255
				}
				gbyte |= uint32(idx) << uint(k*bpp)
			}
			px[i] = 0xff000000 | gbyte<<8
			if content == 3 {
				px[i] = 0xff000000
			}
		}
	}
	g.note("content=%d", content)
	g.imageStream(px, xsize, h, true)
	return g.w.bytes(), strings.Join(g.desc, "; ")
}

func subSample(size, bits int) int { return (size + 1<<uint(bits) - 1) >> uint(bits) }

// imageStream writes one entropy-coded image (spatially-coded image when
// level0, else a sub-image) that decodes to px (xsize x ysize), possibly
// re-shaped by the copy / cache programs the picker selects.
func (g *gen) imageStream(px []uint32, xsize, ysize int, level0 bool) []uint32 {
	return g.imageStreamC(px, xsize, ysize, level0, 0)
}

// imageStreamC is imageStream with the colour cache size of a sub-image forced
// (forceCache > 0): used to make the entropy image's cache collide with the
// main image's.
func (g *gen) imageStreamC(px []uint32, xsize, ysize int, level0 bool, forceCache int) []uint32 {
	pk := g.pk
	lbl := "sub-"
	if level0 {
		lbl = "main-"
	}
	// colour cache
	cacheBits := 0
	unwritten := false // reference a cache slot before any pixel was inserted there: it reads 0x00000000
	if forceCache > 0 {
		cacheBits = forceCache
	} else if c := pk.Pick(7, lbl+"cache"); c > 0 {
		cacheBits = []int{1, 2, 6, 11, 6, 2}[c-1]
		unwritten = c >= 5
	}
	if cacheBits > 0 {
		g.w.put(1, 1)
		g.w.put(uint32(cacheBits), 4)
	} else {
		g.w.put(0, 1)
	}
	// meta prefix codes (level 0 only)
	numGroups := 1
	var groupOf func(x, y int) int
	groupOf = func(x, y int) int { return 0 }
	if level0 {
		// 0 none, 1 present/all zero, 2 checkerboard, 3 sparse ids (more groups than pixels), 4 checkerboard whose
		// entropy image has its own colour cache of the main image's size, 5 unused groups in between but fewer
		// groups than pixels on the larger pictures, 6 group ids above 1000
		meta := pk.Pick(7, "meta")
		if meta == 0 {
			g.w.put(0, 1)
		} else {
			g.w.put(1, 1)
			mbits := 2 + pk.Pick(3, "meta-bits")
			g.w.put(uint32(mbits-2), 3)
			mw, mh := subSample(xsize, mbits), subSample(ysize, mbits)
			ids := make([]int, mw*mh)
			for i := range ids {
				switch meta {
				case 2, 4:
					ids[i] = (i%mw + i/mw) % 2
				case 3:
					ids[i] = []int{0, 300, 7}[i%3]
				case 5:
					ids[i] = []int{0, 40, 7}[i%3]
				case 6:
					ids[i] = []int{0, 1200, 7}[i%3]
				}
			}
			mpx := make([]uint32, len(ids))
			for i, id := range ids {
				mpx[i] = 0xff000000 | uint32(id>>8)<<16 | uint32(id&0xff)<<8
				if id+1 > numGroups {
					numGroups = id + 1
				}
			}
			// the sub-stream's copy programs may change what the entropy image
			// decodes to: the groups are those of the pixels actually coded
			fc := 0
			if meta == 4 {
				fc = cacheBits
				if fc == 0 {
					fc = 3
				}
			}
			actual := g.imageStreamC(mpx, mw, mh, false, fc)
			numGroups = 1
			for i, v := range actual {
				ids[i] = int(v>>8) & 0xffff
				if ids[i]+1 > numGroups {
					numGroups = ids[i] + 1
				}
			}
			g.note("meta=%d bits=%d groups=%d", meta, mbits, numGroups)
			groupOf = func(x, y int) int { return ids[(y>>uint(mbits))*mw+(x>>uint(mbits))] }
		}
	}
	// token program
	n := xsize * ysize
	copyProg := pk.Pick(9, lbl+"copies") // 0 none; else a copy program
	cacheUse := 0
	if cacheBits > 0 {
		cacheUse = 1 + pk.Pick(3, lbl+"cache-use") // 1: hits whenever possible, 2: hits after copies only, 3: never
	}
	var toks []token
	out := make([]uint32, 0, n)
	var cache []uint32
	if cacheBits > 0 {
		cache = make([]uint32, 1<<uint(cacheBits))
	}
	insert := func(v uint32) {
		if cacheBits > 0 {
			cache[cacheHash(v, cacheBits)] = v
		}
	}
	lastWasCopy := false
	emitCopy := func(length, distCode int) bool {
		pos := len(out)
		if pos == 0 || length < 1 {
			return false
		}
		dist := planeCodeToDistance(xsize, distCode)
		if dist > pos {
			return false
		}
		if length > n-pos {
			length = n - pos
		}
		if length > 4096 {
			length = 4096
		}
		toks = append(toks, token{kind: 1, length: length, distCode: distCode})
		for k := 0; k < length; k++ {
			v := out[len(out)-dist]
			out = append(out, v)
			insert(v)
		}
		lastWasCopy = true
		return true
	}
	distMenu := []int{1, 2, 3, 4, 5, 6, 8, 11, 23, 35, 40, 55, 73, 97, 120, 121, 122, 120 + xsize, 120 + 2*xsize + 1}
	step := 0
	for len(out) < n {
		pos := len(out)
		// copy programs: where and what to copy
		if copyProg > 0 && pos > 0 {
			did := false
			switch copyProg {
			case 1: // one short copy from the pixel above (or left), mid-image
				if pos == n/2 {
					did = emitCopy(2, 2-min1(pos/xsize)*1)
				}
			case 2: // overlapping run: distance 1, long length (crosses rows and tiles)
				if pos == 1 {
					did = emitCopy(n, 2)
				}
			case 3: // every distance code of the menu in turn, length 1..3
				if pos >= 2 && pos%3 == 2 {
					did = emitCopy(1+step%3, distMenu[step%len(distMenu)])
					step++
				}
			case 4: // all 120 plane codes in turn
				if pos >= 2 && pos%2 == 0 {
					did = emitCopy(1, 1+step%120)
					step++
				}
			case 5: // copy ending exactly at the end of the image
				if pos == n-min2(n-1, 3) {
					did = emitCopy(n-pos, 2)
				}
			case 6: // copy of a whole row from the row above
				if pos >= xsize && pos%xsize == 0 {
					did = emitCopy(xsize, 1)
				}
			case 7: // copies crossing the row end, plain distances
				if pos > 2 && pos%xsize == xsize-1 {
					did = emitCopy(3, 120+2)
				}
			case 8: // long copies of every extra-bit class (up to 10 length bits), one literal in between,
				// over distances whose prefix symbols differ: the longest token the format allows
				if !lastWasCopy && pos >= 1 {
					lengths := []int{4096, 3073, 3072, 2049, 2048, 1537, 1025, 769, 513, 257, 129, 70, 33}
					dists := []int{2, 120 + 1, 120 + xsize, 120 + 3*xsize + 1, 1, 120 + 2, 120 + 40*xsize}
					did = emitCopy(lengths[step%len(lengths)], dists[step%len(dists)])
					if !did {
						did = emitCopy(lengths[step%len(lengths)], 2)
					}
					step++
				}
			}
			if did {
				continue
			}
		}
		if unwritten && pos < len(cache) {
			// reference, in turn, every slot nothing has been inserted into yet
			// (the specification's cache starts zeroed: they all read 0x00000000)
			slot := -1
			if k := len(cache) - 1 - pos; k >= 0 && cache[k] == 0 {
				slot = k
			}
			if slot >= 0 {
				toks = append(toks, token{kind: 2, cacheIdx: slot})
				out = append(out, 0)
				insert(0)
				lastWasCopy = false
				continue
			}
		}
		v := px[pos]
		if cacheBits > 0 && cacheUse != 3 && cache[cacheHash(v, cacheBits)] == v && (cacheUse == 1 || lastWasCopy) {
			toks = append(toks, token{kind: 2, cacheIdx: cacheHash(v, cacheBits)})
		} else {
			toks = append(toks, token{kind: 0, argb: v})
		}
		out = append(out, v)
		insert(v)
		lastWasCopy = false
	}
	// histograms per group
	greenSize := 256 + 24
	if cacheBits > 0 {
		greenSize += 1 << uint(cacheBits)
	}
	sizes := [5]int{greenSize, 256, 256, 256, 40}
	type grp struct{ freq [5][]int }
	groups := make([]grp, numGroups)
	for i := range groups {
		for k := 0; k < 5; k++ {
			groups[i].freq[k] = make([]int, sizes[k])
		}
	}
	pos := 0
	for _, t := range toks {
		gr := &groups[groupOf(pos%xsize, pos/xsize)]
		switch t.kind {
		case 0:
			gr.freq[0][t.argb>>8&0xff]++
			gr.freq[1][t.argb>>16&0xff]++
			gr.freq[2][t.argb&0xff]++
			gr.freq[3][t.argb>>24]++
			pos++
		case 1:
			ls, _, _ := prefixEncode(t.length)
			gr.freq[0][256+ls]++
			ds, _, _ := prefixEncode(t.distCode)
			gr.freq[4][ds]++
			pos += t.length
		case 2:
			gr.freq[0][280+t.cacheIdx]++
			pos++
		}
	}
	// prefix codes
	// 0 plain huffman/simple where possible, 1 never simple, 2 skewed to length 15 (low symbols rare), 3 rle+max_symbol,
	// 4 literal code lengths only, 5 skewed to length 15 the other way (high symbols rare: length prefixes, far distances)
	shape := pk.Pick(6, lbl+"code-shape")
	codes := make([][5]*code, numGroups)
	for gi := range groups {
		for k := 0; k < 5; k++ {
			f := groups[gi].freq[k]
			var lens []int
			if shape == 2 || shape == 5 {
				// a skewed code whose two rarest symbols have length 15: the symbols in use ordered
				// from the lowest (shape 2) or from the highest (shape 5: length prefixes, far distance
				// codes) as the rare end, padded with unused symbols to at least 16
				var order []int
				inUse := make([]bool, len(f))
				for s := range f {
					inUse[s] = f[s] > 0
				}
				for i := range f {
					s := i
					if shape == 5 {
						s = len(f) - 1 - i
					}
					if inUse[s] {
						order = append(order, s)
					}
				}
				for s := 0; s < len(f) && len(order) < 16; s++ {
					if !inUse[s] {
						order = append(order, s)
					}
				}
				lens = skewLens(len(f), order)
			} else {
				lens = lengthsFromFreq(f, 15)
			}
			codes[gi][k] = newCode(lens)
			g.writeCode(codes[gi][k], sizes[k], shape)
		}
	}
	// tokens
	pos = 0
	for _, t := range toks {
		c := &codes[groupOf(pos%xsize, pos/xsize)]
		switch t.kind {
		case 0:
			c[0].write(g.w, int(t.argb>>8&0xff))
			c[1].write(g.w, int(t.argb>>16&0xff))
			c[2].write(g.w, int(t.argb&0xff))
			c[3].write(g.w, int(t.argb>>24))
			pos++
		case 1:
			ls, ln, le := prefixEncode(t.length)
			if debugTokens {
				ds0, _, _ := prefixEncode(t.distCode)
				println("copy len", t.length, "greenlen", c[0].lens[256+ls], "extra", ln, "distlen", c[4].lens[ds0], "bitpos", (len(g.w.buf)*8+int(g.w.nacc))%32)
			}
			c[0].write(g.w, 256+ls)
			g.w.put(uint32(le), ln)
			ds, dn, de := prefixEncode(t.distCode)
			c[4].write(g.w, ds)
			g.w.put(uint32(de), dn)
			pos += t.length
		case 2:
			c[0].write(g.w, 280+t.cacheIdx)
			pos++
		}
	}
	if copyProg > 0 || cacheBits > 0 {
		g.note("%sstream %dx%d cache=%d use=%d copies=%d shape=%d tokens=%d", lbl, xsize, ysize, cacheBits, cacheUse, copyProg, shape, len(toks))
	} else if shape > 0 {
		g.note("%sstream shape=%d", lbl, shape)
	}
	return out
}

func min1(v int) int {
	if v > 1 {
		return 1
	}
	return v
}
func min2(a, b int) int {
	if a < b {
		return a
	}
	return b
}

// writeCode writes the description of one prefix code.
func (g *gen) writeCode(c *code, alphabet int, shape int) {
	// simple code: at most two used symbols, each below 256
	var usedSyms []int
	for s, l := range c.lens {
		if l > 0 {
			usedSyms = append(usedSyms, s)
		}
	}
	simpleOK := len(usedSyms) <= 2 && (len(usedSyms) == 0 || usedSyms[len(usedSyms)-1] < 256)
	if simpleOK && shape != 1 && shape != 3 && shape != 4 {
		g.w.put(1, 1)
		if len(usedSyms) == 0 {
			usedSyms = []int{0}
			c.lens[0] = 1
			*c = *newCode(c.lens)
		}
		g.w.put(uint32(len(usedSyms)-1), 1)
		if usedSyms[0] < 2 {
			g.w.put(0, 1)
			g.w.put(uint32(usedSyms[0]), 1)
		} else {
			g.w.put(1, 1)
			g.w.put(uint32(usedSyms[0]), 8)
		}
		if len(usedSyms) == 2 {
			g.w.put(uint32(usedSyms[1]), 8)
			// a simple 2-symbol code assigns 1 bit each: rebuild to be sure
			l := make([]int, len(c.lens))
			l[usedSyms[0]], l[usedSyms[1]] = 1, 1
			*c = *newCode(l)
		}
		return
	}
	if len(usedSyms) == 0 {
		// an unused code still has to be valid: one symbol
		c.lens[0] = 1
		*c = *newCode(c.lens)
		usedSyms = []int{0}
	}
	// normal code
	g.w.put(0, 1)
	lens := c.lens
	maxSym := alphabet
	useMax := shape == 3 || shape == 0 && alphabet > 256+24
	if useMax {
		// drop trailing zero lengths
		last := 0
		for s, l := range lens {
			if l > 0 {
				last = s
			}
		}
		maxSym = last + 1
		if maxSym < 2 {
			maxSym = 2
		}
	}
	// code length tokens
	type cl struct{ sym, extra, nbits int }
	var cls []cl
	rle := shape != 4
	prev := 8
	for i := 0; i < maxSym; {
		l := 0
		if i < len(lens) {
			l = lens[i]
		}
		run := 1
		for i+run < maxSym && run < 138 {
			nl := 0
			if i+run < len(lens) {
				nl = lens[i+run]
			}
			if nl != l {
				break
			}
			run++
		}
		switch {
		case rle && l == 0 && run >= 11:
			cls = append(cls, cl{18, run - 11, 7})
			i += run
		case rle && l == 0 && run >= 3:
			if run > 10 {
				run = 10
			}
			cls = append(cls, cl{17, run - 3, 3})
			i += run
		case rle && l != 0 && l == prev && run >= 3:
			if run > 6 {
				run = 6
			}
			cls = append(cls, cl{16, run - 3, 2})
			i += run
		default:
			cls = append(cls, cl{l, 0, 0})
			if l != 0 {
				prev = l
			}
			i++
		}
	}
	numTokens := len(cls)
	// code-length code
	clFreq := make([]int, 19)
	for _, t := range cls {
		clFreq[t.sym]++
	}
	clLens := lengthsFromFreq(clFreq, 7)
	clCode := newCode(clLens)
	num := 19
	for num > 4 && clLens[codeLengthCodeOrder[num-1]] == 0 {
		num--
	}
	g.w.put(uint32(num-4), 4)
	for i := 0; i < num; i++ {
		g.w.put(uint32(clLens[codeLengthCodeOrder[i]]), 3)
	}
	if useMax {
		g.w.put(1, 1)
		// max_symbol counts code-length TOKENS: length_nbits = 2 + 2*n, value = 2 + read(length_nbits)
		v := numTokens - 2
		if v < 0 {
			// fewer than two tokens cannot be expressed: fall back to the full alphabet
			panic("vp8lgen: fewer than two code length tokens")
		}
		nb := 2
		for v >= 1<<uint(nb) {
			nb += 2
		}
		g.w.put(uint32((nb-2)/2), 3)
		g.w.put(uint32(v), nb)
	} else {
		g.w.put(0, 1)
	}
	for _, t := range cls {
		clCode.write(g.w, t.sym)
		g.w.put(uint32(t.extra), t.nbits)
	}
}

// skewLens returns the lengths of a complete prefix code over the symbols of order (rarest
// first, at least 2, alphabet size n) in which the two rarest symbols have length
// min(len(order)-1, 15): a chain hanging from one leaf of a balanced top tree.
func skewLens(n int, order []int) []int {
	lens := make([]int, n)
	m := len(order)
	if m == 1 {
		lens[order[0]] = 1
		return lens
	}
	if m <= 16 {
		for i, s := range order {
			l := m - i
			if i == 0 {
				l = m - 1
			}
			lens[s] = l
		}
		return lens
	}
	// t: depth of the balanced top; one depth-t slot carries the chain t+1 .. 15, 15
	t := 1
	for (1<<uint(t))-1+16-t < m {
		t++
	}
	chain := 16 - t
	for i := 0; i < chain; i++ {
		l := 15 - i + 1
		if i == 0 {
			l = 15
		}
		if l > 15 {
			l = 15
		}
		lens[order[i]] = l
	}
	// chain lengths: 15, 15, 14, ..., t+1
	for i := 1; i < chain; i++ {
		lens[order[i]] = 15 - (i - 1)
	}
	rest := order[chain:]
	capacity := (1 << uint(t)) - 1
	merge := capacity - len(rest) // pairs of depth-t leaves replaced by one depth t-1 leaf
	for i, s := range rest {
		// the most frequent (last) symbols get the shorter codes
		if len(rest)-1-i < merge {
			lens[s] = t - 1
		} else {
			lens[s] = t
		}
	}
	return lens
}
