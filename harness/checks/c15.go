package checks

import (
	"bytes"
	"fmt"
	"image"
	"strings"
	"time"

	webp "github.com/deepteams/webp"
	"github.com/deepteams/webp/animation"
	"github.com/deepteams/webp/internal/zzverif/choice"
	"github.com/deepteams/webp/internal/zzverif/fw"
	"github.com/deepteams/webp/internal/zzverif/imgs"
	"github.com/deepteams/webp/internal/zzverif/riffwalk"
	"github.com/deepteams/webp/mux"
)

// C15 — metadata is stored byte-exact and never affects the picture.

var c15BlobNames = []string{"absent", "nil", "empty", "b1", "b2", "b3", "chunklike", "b4095", "b4096", "b65537"}

func c15Blob(name string, tag byte) (b []byte, given bool) {
	switch name {
	case "absent":
		return nil, false
	case "nil":
		return nil, true
	case "empty":
		return []byte{}, true
	case "b1":
		return []byte{tag}, true
	case "b2":
		return []byte{tag, 0}, true
	case "b3":
		return []byte{0xff, tag, 0x00}, true
	case "chunklike":
		// looks like chunk headers / RIFF magic
		return append([]byte("VP8X\x0a\x00\x00\x00RIFF\xff\xff\xff\xffWEBPANMF\x10\x00\x00\x00EXIF\x01\x00\x00\x00"), tag), true
	case "b4095":
		return blob(4095, tag), true
	case "b4096":
		return blob(4096, tag), true
	case "b65537":
		return blob(65537, tag), true
	case "b100M":
		return make([]byte, 100*1024*1024), true
	case "b100M+1":
		return make([]byte, 100*1024*1024+1), true
	}
	panic(name)
}

type c15Case struct {
	Kind           string // lossy | lossless | lossy-alpha | lossless-alpha | anim1 | anim2
	ICC, EXIF, XMP string
	Seed           int64
}

func (cs *c15Case) key() string {
	return fmt.Sprintf("metadata kind=%s icc=%s exif=%s xmp=%s", cs.Kind, cs.ICC, cs.EXIF, cs.XMP)
}

// produce writes the output with or without the metadata.
//
// The blobs are handed over the way a caller who read one sidecar file would hold them:
// adjacent sub-slices of ONE buffer, each with spare capacity reaching over whatever
// follows it (for the muxer kinds the frame bitstream sits between ICC and EXIF, the
// order in which the container stores them).  checkArena reports whether that buffer,
// including its unused tail, is still what the caller put there.
func (cs *c15Case) produce(withMeta bool) (outBytes []byte, outErr error, panicked string) {
	icc, _ := c15Blob(cs.ICC, 0x11)
	exif, _ := c15Blob(cs.EXIF, 0x22)
	xmp, _ := c15Blob(cs.XMP, 0x33)
	var muxBits []byte
	if strings.HasPrefix(cs.Kind, "mux") {
		b, err, p := encode(imgs.Make(17, 9, "noise", "agradient", cs.Seed), &webp.EncoderOptions{Lossless: true, Quality: 75, Method: 4})
		if err != nil || p != "" {
			return nil, fmt.Errorf("cannot make the frame for the muxer kinds: %v %s", err, first(p)), ""
		}
		f, perr := riffwalk.Parse(b)
		if perr != nil || len(f.Frames) != 1 {
			return nil, fmt.Errorf("cannot parse the frame for the muxer kinds: %v", perr), ""
		}
		muxBits = f.Frames[0].Bitstream
		if cs.Kind == "mux-still-odd" && len(muxBits)%2 == 0 || cs.Kind == "mux-still-even" && len(muxBits)%2 == 1 {
			muxBits = append(append([]byte(nil), muxBits...), 0) // a VP8L decoder ignores trailing bytes
		}
	}
	arena := make([]byte, len(icc)+len(exif)+len(xmp)+len(muxBits)+16)
	for i := range arena {
		arena[i] = 0xEE
	}
	arena = arena[:0]
	put := func(b []byte) []byte {
		if b == nil {
			return nil
		}
		start := len(arena)
		arena = append(arena, b...)
		return arena[start:len(arena)] // capacity reaches to the end of the caller's buffer
	}
	icc = put(icc)
	muxBits = put(muxBits)
	exif = put(exif)
	xmp = put(xmp)
	snapshot := append([]byte(nil), arena[:cap(arena)]...)
	defer func() {
		if panicked == "" && outErr == nil && !bytes.Equal(arena[:cap(arena)], snapshot) {
			outErr = fmt.Errorf("the caller's buffer holding the metadata blobs was modified")
		}
	}()
	if strings.HasPrefix(cs.Kind, "mux") {
		p := func() (p string) {
			defer func() {
				if r := recover(); r != nil {
					p = fmt.Sprint(r)
				}
			}()
			m := mux.NewMuxer()
			if withMeta {
				if cs.ICC != "absent" {
					m.SetICCProfile(icc)
				}
				if cs.EXIF != "absent" {
					m.SetEXIF(exif)
				}
				if cs.XMP != "absent" {
					m.SetXMP(xmp)
				}
			}
			if cs.Kind == "mux-anim" {
				outErr = m.AddFrame(muxBits, &mux.FrameOptions{Duration: 100})
				if outErr == nil {
					outErr = m.AddFrame(muxBits, &mux.FrameOptions{Duration: 50})
				}
			} else if cs.Kind == "mux-anim-1001" {
				// more chunks than any table bounded at 1000 entries holds: EXIF and XMP are
				// written after all the frames
				for i := 0; i < 1001 && outErr == nil; i++ {
					outErr = m.AddFrame(muxBits, &mux.FrameOptions{Duration: 10 + i%3})
				}
			} else {
				outErr = m.AddFrame(muxBits, nil)
			}
			if outErr != nil {
				return
			}
			var buf bytes.Buffer
			outErr = m.Assemble(&buf)
			outBytes = buf.Bytes()
			return
		}()
		return outBytes, outErr, p
	}
	alpha := "opaque"
	if strings.HasSuffix(cs.Kind, "-alpha") {
		alpha = "agradient"
	}
	if strings.HasSuffix(cs.Kind, "-alpha-exact") {
		alpha = "binary" // many fully transparent pixels with colour underneath, kept by Exact
	}
	src := imgs.Make(17, 9, "noise", alpha, cs.Seed)
	if strings.Contains(cs.Kind, "-target") {
		src = imgs.Make(48, 32, "noise", alpha, cs.Seed) // large enough for the size / PSNR search to iterate
	}
	if strings.HasPrefix(cs.Kind, "anim") {
		var out []byte
		var err error
		p := func() (p string) {
			defer func() {
				if r := recover(); r != nil {
					p = fmt.Sprint(r)
				}
			}()
			var buf bytes.Buffer
			enc := animation.NewEncoder(&buf, 17, 9, &animation.EncodeOptions{Lossless: true, Quality: 75})
			if withMeta {
				if cs.ICC != "absent" {
					enc.SetICCProfile(icc)
				}
				if cs.EXIF != "absent" {
					enc.SetEXIF(exif)
				}
				if cs.XMP != "absent" {
					enc.SetXMP(xmp)
				}
			}
			if err = enc.AddFrame(src, 100*time.Millisecond); err != nil {
				return
			}
			if cs.Kind == "anim2" {
				src2 := imgs.Make(17, 9, "gradient", alpha, cs.Seed)
				if err = enc.AddFrame(src2, 50*time.Millisecond); err != nil {
					return
				}
			}
			err = enc.Close()
			out = buf.Bytes()
			return
		}()
		return out, err, p
	}
	o := webp.DefaultOptions()
	o.Lossless = strings.HasPrefix(cs.Kind, "lossless")
	o.Exact = strings.HasSuffix(cs.Kind, "-exact")
	switch {
	// option sets under which the encoder budgets, searches or switches code paths: none of it may
	// look at the metadata
	case strings.HasSuffix(cs.Kind, "-targetsize"):
		o.TargetSize, o.Pass = 900, 6
	case strings.HasSuffix(cs.Kind, "-targetpsnr"):
		o.TargetPSNR, o.Pass = 36, 6
	case strings.HasSuffix(cs.Kind, "-m6"):
		o.Method, o.Quality = 6, 100
	}
	if withMeta {
		if cs.ICC != "absent" {
			o.ICC = icc
		}
		if cs.EXIF != "absent" {
			o.EXIF = exif
		}
		if cs.XMP != "absent" {
			o.XMP = xmp
		}
	}
	return encode(src, o)
}

func (cs *c15Case) run() string {
	with, err, p := cs.produce(true)
	if p != "" {
		return "panic while encoding with metadata: " + first(p)
	}
	if err != nil {
		return "encoding with metadata failed: " + err.Error()
	}
	without, err, p := cs.produce(false)
	if p != "" || err != nil {
		return fmt.Sprintf("encoding without metadata failed: %v %s", err, first(p))
	}
	f, perr := riffwalk.Parse(with)
	if perr != nil {
		return "output with metadata is not parseable: " + perr.Error()
	}
	if len(f.Problems) > 0 {
		return "output with metadata is not conformant: " + strings.Join(f.Problems, "; ")
	}
	f0, perr := riffwalk.Parse(without)
	if perr != nil {
		return "output without metadata is not parseable: " + perr.Error()
	}
	dmx, derr := mux.NewDemuxer(with)
	if derr != nil {
		return "demuxer rejects the output: " + derr.Error()
	}
	an, aerr := animation.DecodeBytes(with)
	if aerr != nil {
		return "animation.DecodeBytes rejects the output: " + aerr.Error()
	}
	type blobT struct {
		name, sel string
		id        mux.ChunkID
		present   bool
		got       []byte
		anim      []byte
	}
	blobs := []blobT{
		{"ICC", cs.ICC, mux.FourCCICCP, f.HasICC, f.ICC, an.ICC},
		{"EXIF", cs.EXIF, mux.FourCCEXIF, f.HasEXIF, f.EXIF, an.EXIF},
		{"XMP", cs.XMP, mux.FourCCXMP, f.HasXMP, f.XMP, an.XMP},
	}
	for i, b := range blobs {
		want, _ := c15Blob(b.sel, []byte{0x11, 0x22, 0x33}[i])
		if len(want) == 0 {
			// absent, nil or empty: nothing to store; the flag must agree with
			// chunk presence (checked by riffwalk), and if a chunk is present it must be empty
			if b.present && len(b.got) != 0 {
				return fmt.Sprintf("%s: a %d-byte chunk was written although no data was given", b.name, len(b.got))
			}
			continue
		}
		if !b.present {
			return fmt.Sprintf("%s blob of %d bytes was given but the file has no such chunk", b.name, len(want))
		}
		if !bytes.Equal(b.got, want) {
			return fmt.Sprintf("%s chunk differs from the blob given (%d bytes stored, %d given)", b.name, len(b.got), len(want))
		}
		got, gerr := dmx.GetChunk(b.id)
		if gerr != nil || !bytes.Equal(got, want) {
			return fmt.Sprintf("%s: GetChunk returns %d bytes (err %v), %d given", b.name, len(got), gerr, len(want))
		}
		if !bytes.Equal(b.anim, want) {
			return fmt.Sprintf("%s: animation.DecodeBytes returns %d bytes, %d given", b.name, len(b.anim), len(want))
		}
	}
	// the picture is unaffected: same frames, same bitstreams and alpha payloads
	if len(f.Frames) != len(f0.Frames) {
		return fmt.Sprintf("metadata changed the number of frames: %d vs %d", len(f.Frames), len(f0.Frames))
	}
	if f.CanvasW != f0.CanvasW || f.CanvasH != f0.CanvasH {
		return "metadata changed the canvas size"
	}
	for i := range f.Frames {
		a, b := &f.Frames[i], &f0.Frames[i]
		if !bytes.Equal(a.Bitstream, b.Bitstream) {
			return fmt.Sprintf("frame %d: embedded image bitstream differs with vs without metadata (%d vs %d bytes)", i, len(a.Bitstream), len(b.Bitstream))
		}
		if !bytes.Equal(a.Alpha, b.Alpha) || a.HasALPH != b.HasALPH {
			return fmt.Sprintf("frame %d: ALPH payload differs with vs without metadata", i)
		}
		// a single picture may legitimately be stored as a plain still image
		// (no timing); frame parameters are compared only between two animated files
		if f.Animated && f0.Animated && (a.X != b.X || a.Y != b.Y || a.Duration != b.Duration || a.NoBlend != b.NoBlend || a.Dispose != b.Dispose) {
			return fmt.Sprintf("frame %d: frame parameters differ with vs without metadata", i)
		}
	}
	if !f.Animated {
		g1, e1, p1 := decode(with)
		g0, e0, p0 := decode(without)
		if p1+p0 != "" || e1 != nil || e0 != nil {
			return fmt.Sprintf("decode failed: %v %v %s", e1, e0, first(p1+p0))
		}
		if n, px := imgs.Diff(imgs.Expect(g0), g1, false); n != 0 {
			return fmt.Sprintf("decoded pixels differ with vs without metadata: %d px, first %s", n, px)
		}
	}
	return ""
}

var _ image.Image

func init() {
	registerCases[c15Case]("C15", "exploration",
		"full product of blob alphabet {absent, nil, empty, 1, 2, 3 bytes, chunk-look-alike, 4095, 4096, 65537 bytes} for each of ICC, EXIF, XMP x 16 output kinds (a 1001-frame muxer animation among them; mux.Muxer with a pre-encoded still of odd and of even length and with two frames, all blobs and the bitstream being adjacent sub-slices of one caller-owned buffer that must come back untouched; lossy, lossless, lossy+alpha, lossless+alpha, both again with Exact on a picture with colour under transparent pixels, 1-frame and 2-frame AnimEncoder, lossy with a TargetSize and with a TargetPSNR search, Method 6 Quality 100 in both codecs); blobs read back byte-exact via riffwalk, mux.GetChunk and animation.DecodeBytes; flags = chunk presence; bitstream/ALPH payloads and decoded pixels identical to the no-metadata output",
		[]string{"worker count pinned to 1, pools never reuse"},
		nil,
		func(e *fw.Env) func(c *choice.Ctx) caseI {
			kinds := []string{"lossy", "lossless", "lossy-alpha", "lossless-alpha", "lossy-alpha-exact", "lossless-alpha-exact", "anim1", "anim2",
				"lossy-targetsize", "lossy-targetpsnr", "lossless-m6", "lossy-m6", "mux-still-odd", "mux-still-even", "mux-anim", "mux-anim-1001"}
			names := c15BlobNames
			if e.Quick() {
				names = []string{"absent", "nil", "empty", "b1", "b2", "chunklike", "b4095"}
			}
			return func(c *choice.Ctx) caseI {
				cs := &c15Case{Seed: e.Seed}
				cs.Kind = kinds[c.PickFree(len(kinds), "kind")]
				cs.ICC = names[c.PickFree(len(names), "icc")]
				cs.EXIF = names[c.PickFree(len(names), "exif")]
				cs.XMP = names[c.PickFree(len(names), "xmp")]
				return cs
			}
		})
}
