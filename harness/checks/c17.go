package checks

import (
	"bytes"
	"errors"
	"encoding/json"
	"fmt"
	"image"
	"io"
	"reflect"
	"testing/iotest"

	webp "github.com/deepteams/webp"
	"github.com/deepteams/webp/internal/zzverif/fw"
	"github.com/deepteams/webp/internal/zzverif/imgs"
)

// C17 — decoding a truncated file is all-or-nothing (fault enumeration,
// complete: every proper prefix of every corpus file).

// imageEqual compares two decoded images exactly (type, bounds, samples).
func imageEqual(a, b image.Image) string {
	if a == nil || b == nil {
		if a == nil && b == nil {
			return ""
		}
		return "one image is nil"
	}
	if a.Bounds() != b.Bounds() {
		return fmt.Sprintf("bounds %v vs %v", a.Bounds(), b.Bounds())
	}
	switch x := a.(type) {
	case *image.NRGBA:
		y, ok := b.(*image.NRGBA)
		if !ok {
			return fmt.Sprintf("types %T vs %T", a, b)
		}
		w, h := x.Rect.Dx(), x.Rect.Dy()
		for j := 0; j < h; j++ {
			if !bytes.Equal(x.Pix[j*x.Stride:j*x.Stride+4*w], y.Pix[j*y.Stride:j*y.Stride+4*w]) {
				return fmt.Sprintf("pixel row %d differs", j)
			}
		}
		return ""
	case *image.YCbCr:
		y, ok := b.(*image.YCbCr)
		if !ok {
			return fmt.Sprintf("types %T vs %T", a, b)
		}
		if x.SubsampleRatio != y.SubsampleRatio {
			return "subsample ratio differs"
		}
		w, h := x.Rect.Dx(), x.Rect.Dy()
		for j := 0; j < h; j++ {
			if !bytes.Equal(x.Y[j*x.YStride:j*x.YStride+w], y.Y[j*y.YStride:j*y.YStride+w]) {
				return fmt.Sprintf("Y row %d differs", j)
			}
		}
		cw, ch := (w+1)/2, (h+1)/2
		for j := 0; j < ch; j++ {
			if !bytes.Equal(x.Cb[j*x.CStride:j*x.CStride+cw], y.Cb[j*y.CStride:j*y.CStride+cw]) ||
				!bytes.Equal(x.Cr[j*x.CStride:j*x.CStride+cw], y.Cr[j*y.CStride:j*y.CStride+cw]) {
				return fmt.Sprintf("chroma row %d differs", j)
			}
		}
		return ""
	}
	bd := a.Bounds()
	for yy := bd.Min.Y; yy < bd.Max.Y; yy++ {
		for xx := bd.Min.X; xx < bd.Max.X; xx++ {
			r1, g1, b1, a1 := a.At(xx, yy).RGBA()
			r2, g2, b2, a2 := b.At(xx, yy).RGBA()
			if r1 != r2 || g1 != g2 || b1 != b2 || a1 != a2 {
				return fmt.Sprintf("pixel (%d,%d) differs", xx, yy)
			}
		}
	}
	return ""
}

type c17Replay struct {
	File string
	Cut  int
	Seed int64
}

// The public entry points take an io.Reader and the package has a shortcut for
// readers that know their length: every prefix is delivered through each kind
// of reader (the "environment answers" of a read: all at once with a known
// length, unknown length, one byte per Read, data together with io.EOF, and
// through image.Decode's format sniffing, which wraps the reader in bufio).
var c17Readers = []string{"bytes.Reader", "no-Len", "one-byte", "data+EOF", "image.Decode", "then-error"}

type noLen struct{ r io.Reader }

func (n noLen) Read(p []byte) (int, error) { return n.r.Read(p) }

func c17Reader(kind string, data []byte) io.Reader {
	switch kind {
	case "no-Len":
		return noLen{bytes.NewReader(data)}
	case "one-byte":
		return iotest.OneByteReader(bytes.NewReader(data))
	case "data+EOF":
		return iotest.DataErrReader(bytes.NewReader(data))
	case "then-error":
		// the connection breaks: the bytes, then an error that is not io.EOF
		return io.MultiReader(bytes.NewReader(data), iotest.ErrReader(errors.New("connection reset")))
	}
	return bytes.NewReader(data)
}

func c17Decode(kind string, data []byte) (img image.Image, err error, panicked string) {
	defer func() {
		if r := recover(); r != nil {
			panicked = fmt.Sprint(r)
		}
	}()
	if kind == "image.Decode" {
		img, _, err = image.Decode(noLen{bytes.NewReader(data)})
		return
	}
	img, err = webp.Decode(c17Reader(kind, data))
	return
}

type fullRef struct {
	img  image.Image
	cfg  image.Config
	feat *webp.Features
}

func c17Full(f namedFile) (*fullRef, string) {
	img, err, p := decode(f.Data)
	if err != nil || p != "" {
		return nil, fmt.Sprintf("corpus file %s does not decode: %v %s", f.Name, err, first(p))
	}
	cfg, err := webp.DecodeConfig(bytes.NewReader(f.Data))
	if err != nil {
		return nil, fmt.Sprintf("corpus file %s: DecodeConfig: %v", f.Name, err)
	}
	ft, err := webp.GetFeatures(bytes.NewReader(f.Data))
	if err != nil {
		return nil, fmt.Sprintf("corpus file %s: GetFeatures: %v", f.Name, err)
	}
	return &fullRef{img, cfg, ft}, ""
}

// c17Cut checks one prefix through every reader kind; "" = held.
func c17Cut(f namedFile, ref *fullRef, n int) string {
	for _, kind := range c17Readers {
		if d := c17CutWith(f, ref, n, kind); d != "" {
			return d + " (reader: " + kind + ")"
		}
	}
	return ""
}

func c17CutWith(f namedFile, ref *fullRef, n int, kind string) string {
	pre := f.Data[:n:n]
	img, err, p := c17Decode(kind, pre)
	if p != "" {
		return "Decode panicked: " + first(p)
	}
	if err == nil {
		if d := imageEqual(ref.img, img); d != "" {
			return "Decode accepted the prefix but returned a different picture: " + d
		}
	} else if n == len(f.Data) && kind != "then-error" {
		return "Decode rejects the complete file: " + err.Error()
	}
	cfg, cerr, cp := func() (c image.Config, e error, p string) {
		defer func() {
			if r := recover(); r != nil {
				p = fmt.Sprint(r)
			}
		}()
		if kind == "image.Decode" {
			c, _, e = image.DecodeConfig(noLen{bytes.NewReader(pre)})
			return
		}
		c, e = webp.DecodeConfig(c17Reader(kind, pre))
		return
	}()
	if cp != "" {
		return "DecodeConfig panicked: " + cp
	}
	if cerr == nil && (cfg.Width != ref.cfg.Width || cfg.Height != ref.cfg.Height || cfg.ColorModel != ref.cfg.ColorModel) {
		return fmt.Sprintf("DecodeConfig on the prefix reports %dx%d/%s, on the complete file %dx%d/%s",
			cfg.Width, cfg.Height, modelName(cfg.ColorModel), ref.cfg.Width, ref.cfg.Height, modelName(ref.cfg.ColorModel))
	}
	ft, ferr, fp := func() (f *webp.Features, e error, p string) {
		defer func() {
			if r := recover(); r != nil {
				p = fmt.Sprint(r)
			}
		}()
		f, e = webp.GetFeatures(c17Reader(kind, pre))
		return
	}()
	if fp != "" {
		return "GetFeatures panicked: " + fp
	}
	if ferr == nil && !reflect.DeepEqual(ft, ref.feat) {
		return fmt.Sprintf("GetFeatures on the prefix reports %+v, on the complete file %+v", *ft, *ref.feat)
	}
	return ""
}

// c17TailFiles is the stream-ending family: small pictures x few-colour / flat / noise content
// x alpha x codec settings x filler seeds, each a complete valid file.
func c17TailFiles(seed int64, quick bool) []namedFile {
	var out []namedFile
	sizes := [][2]int{{1, 1}, {2, 1}, {1, 3}, {3, 2}, {4, 4}, {5, 3}, {6, 10}, {7, 7}, {8, 8}, {9, 5}, {13, 4}, {16, 16}, {17, 3}, {3, 17}}
	seeds := 3
	if !quick {
		seeds = 12
	}
	for _, sz := range sizes {
		for _, content := range []string{"flat", "c2", "c3", "c4", "c5", "c16", "noise"} {
			for _, alpha := range []string{"opaque", "binary"} {
				for sd := 0; sd < seeds; sd++ {
					img := imgs.Make(sz[0], sz[1], content, alpha, seed+int64(sd)*7919)
					for _, o := range []struct {
						name string
						opt  *webp.EncoderOptions
					}{
						{"ll-m4q75", &webp.EncoderOptions{Lossless: true, Method: 4, Quality: 75}},
						{"ll-m0q0", &webp.EncoderOptions{Lossless: true, Method: 0, Quality: 0}},
						{"ll-m6q100", &webp.EncoderOptions{Lossless: true, Method: 6, Quality: 100}},
						{"lossy", lossyOpts(nil)},
						{"lossy-p3", lossyOpts(func(o *webp.EncoderOptions) { o.Partitions = 3; o.Quality = 30 })},
					} {
						if (content == "flat" || alpha == "binary") && sd > 0 && o.opt.Lossless == false {
							continue // lossy colour data of flat pictures does not vary with the filler
						}
						data, err, p := encode(img, o.opt)
						if err != nil || p != "" {
							continue
						}
						out = append(out, namedFile{Name: fmt.Sprintf("tail-%dx%d-%s-%s-%s-s%d", sz[0], sz[1], content, alpha, o.name, sd), Data: data})
					}
				}
			}
		}
	}
	return out
}

func init() {
	fw.Register(&fw.Check{
		ID: "C17", Level: "fault_enumeration", Shards: shards16,
		Rule:   "corpus of valid still files (lossy 1/2/4/8 partitions, lossless per transform class, lossy+alpha raw/VP8L x filters, extended with metadata before/after, unknown chunks, odd payloads, testdata) x EVERY prefix length 0..len (the complete file included) x 6 kinds of io.Reader (known length, unknown length, one byte per Read, data together with io.EOF, image.Decode/DecodeConfig through the registered format, the bytes followed by an error other than io.EOF); Decode = error or identical picture; DecodeConfig/GetFeatures = error or identical values; plus the stream-ending family: every small picture of 14 sizes x 7 content classes x 2 alpha classes x 5 codec settings x 3 (thorough 12) fillers cut at each of its last 16 bytes, same readers and oracle; non-trivial = a (file, cut) pair with cut > 0",
		Assume: []string{"worker count pinned to 1, pools never reuse", "corpus files are produced by this package's encoder and by the harness's RIFF writer"},
		Run: func(e *fw.Env, r *fw.Result) {
			pin()
			corpusThorough = !e.Quick()
			corpusMenus = true
			files := stillCorpus(e.Seed, e.Repo)
			k := 0
			total := 0
			for _, f := range files {
				ref, bad := c17Full(f)
				if bad != "" {
					r.HarnessError("%s", bad)
					continue
				}
				total += len(f.Data)
				for n := 0; n <= len(f.Data); n++ {
					k++
					if !e.Mine(k) {
						continue
					}
					if e.Expired() {
						r.Cap("deadline reached before all prefixes were tried")
						return
					}
					r.Eval(int64(len(c17Readers)))
					if n > 0 {
						r.Distinct(f.Name, n)
					}
					if d := c17Cut(f, ref, n); d != "" {
						if r.Confirm(2, d, func() string { return c17Cut(f, ref, n) }) {
							r.Violate(fmt.Sprintf("truncate %s at %d of %d", f.Name, n, len(f.Data)), fmt.Sprintf("%s [file %s cut at byte %d of %d]", d, f.Name, n, len(f.Data)), c17Replay{f.Name, n, e.Seed})
						}
					}
				}
			}
			// Stream endings: the last bytes of a stream are where a decoder's end-of-data test is
			// decided, and whether a cut there is noticed depends on how the final symbols fall
			// (literal / copy / cache hit, packed or ordinary prefix tables, bits left in the
			// window). So many small files - every combination below - are cut at each of their
			// last 16 bytes; only this family is large enough to vary the ending itself.
			tails := c17TailFiles(e.Seed, e.Quick())
			for _, f := range tails {
				var ref *fullRef
				for n := len(f.Data) - 1; n >= 1 && n >= len(f.Data)-16; n-- {
					k++
					if !e.Mine(k) {
						continue
					}
					if e.Expired() {
						r.Cap("deadline reached before all stream endings were tried")
						return
					}
					if ref == nil {
						var bad string
						if ref, bad = c17Full(f); bad != "" {
							r.HarnessError("%s", bad)
							break
						}
					}
					r.Eval(int64(len(c17Readers)))
					r.Distinct(f.Name, n)
					if d := c17Cut(f, ref, n); d != "" {
						f, ref, n := f, ref, n
						if r.Confirm(2, d, func() string { return c17Cut(f, ref, n) }) {
							r.Violate(fmt.Sprintf("truncate %s at %d of %d", f.Name, n, len(f.Data)), fmt.Sprintf("%s [file %s cut at byte %d of %d]", d, f.Name, n, len(f.Data)), c17Replay{f.Name, n, e.Seed})
						}
					}
				}
			}
			r.Count("stream_ending_files", int64(len(tails)))
			if e.Shard == 0 {
				r.Count("corpus_files", int64(len(files)))
				r.Count("corpus_bytes", int64(total))
				var names []string
				for _, f := range files {
					names = append(names, fmt.Sprintf("%s(%dB)", f.Name, len(f.Data)))
				}
				r.Sample(1, map[string]any{"corpus": names})
				r.Sample(2, map[string]any{"file": files[0].Name, "cut": len(files[0].Data) / 2})
			}
		},
		Replay: func(e *fw.Env, raw json.RawMessage) string {
			pin()
			var rp c17Replay
			json.Unmarshal(raw, &rp)
			corpusThorough = true
			for _, f := range append(stillCorpus(rp.Seed, e.Repo), c17TailFiles(rp.Seed, false)...) {
				if f.Name == rp.File {
					ref, bad := c17Full(f)
					if bad != "" {
						return bad
					}
					return c17Cut(f, ref, rp.Cut)
				}
			}
			return "corpus file not found: " + rp.File
		},
	})
}
