package checks

import (
	"fmt"
	"image"

	webp "github.com/deepteams/webp"
	"github.com/deepteams/webp/internal/zzverif/choice"
	"github.com/deepteams/webp/internal/zzverif/fw"
	"github.com/deepteams/webp/internal/zzverif/imgs"
	"github.com/deepteams/webp/internal/zzverif/refdec"
	"github.com/deepteams/webp/internal/zzverif/riffwalk"
	"github.com/deepteams/webp/internal/zzverif/vhook"
	"github.com/deepteams/webp/internal/zzverif/vsync"
)

// C06 — lossy decode equals the encoder's own reconstruction (no drift).

var c06Fields = func() []optField {
	var out []optField
	for _, f := range c02Fields {
		switch f.name {
		case "Lossless", "Metadata", "AlphaCompression", "AlphaFiltering", "AlphaQuality":
			continue
		}
		out = append(out, f)
	}
	return out
}()

var c06Images = []c02Img{
	{16, 16, "noise", "opaque"}, {17, 33, "gradient", "opaque"}, {33, 48, "noise", "opaque"}, {48, 64, "many", "opaque"},
	{64, 64, "noise", "opaque"}, {100, 65, "gradient", "opaque"}, {64, 80, "c4", "opaque"}, {40, 72, "noise", "agradient"},
	{16, 80, "noise", "opaque"}, {80, 66, "regions4", "opaque"},
}

type c06Case struct {
	Img     c02Img
	Dev     map[string]int
	Workers int
	// PrevM >= 0: a previous encode of the same picture with Method PrevM runs
	// first and the encoder objects are recycled (pools reuse most-recent):
	// reuse of a pooled encoder must not make the second encode drift.
	PrevM int
	M     int
	Seed  int64
}

func (cs *c06Case) key() string {
	if cs.PrevM >= 0 {
		return fmt.Sprintf("drift %dx%d %s/%s workers=%d method %d after method %d on a recycled encoder", cs.Img.W, cs.Img.H, cs.Img.Content, cs.Img.Alpha, cs.Workers, cs.M, cs.PrevM)
	}
	return fmt.Sprintf("drift %dx%d %s/%s workers=%d opts{%s}", cs.Img.W, cs.Img.H, cs.Img.Content, cs.Img.Alpha, cs.Workers, devString(cs.Dev, c06Fields))
}

func (cs *c06Case) opts() *webp.EncoderOptions {
	o := webp.DefaultOptions()
	for _, f := range c06Fields {
		if i, ok := cs.Dev[f.name]; ok && i > 0 {
			f.set(o, i)
		}
	}
	return o
}

type encPlanes struct {
	w, h      int
	y, u, v   []byte
	ys, uvs   int
	delivered int
}

func (cs *c06Case) run() string {
	if vhook.PlanesFn == nil && !c06Hooked {
		return ""
	}
	src := imgs.Make(cs.Img.W, cs.Img.H, cs.Img.Content, cs.Img.Alpha, cs.Seed)
	o := cs.opts()
	var ep encPlanes
	vhook.PlanesFn = func(w, h int, y, u, v []byte, ys, uvs int) {
		ep = encPlanes{w, h, y, u, v, ys, uvs, ep.delivered + 1}
	}
	defer func() { vhook.PlanesFn = nil }()
	var data []byte
	var err error
	var p string
	vhook.ClearSites()
	vhook.SetDefault(cs.Workers)
	vsync.SetPoolPolicy(vsync.PoolFresh, nil)
	if cs.PrevM >= 0 {
		vsync.SetPoolPolicy(vsync.PoolMostRecent, nil)
		vsync.ResetPools()
		po := webp.DefaultOptions()
		po.Method = cs.PrevM
		if cs.Workers > 1 {
			vsync.Run(func(n, cost int, d string) int { return 0 }, 2000000, false, func() { encode(src, po) })
		} else {
			encode(src, po)
		}
		o.Method = cs.M
		ep = encPlanes{}
	}
	if cs.Workers > 1 {
		// parallel code paths, deterministically: controlled scheduler, default schedule
		res := vsync.Run(func(n, cost int, d string) int { return 0 }, 2000000, false, func() { data, err, p = encode(src, o) })
		if res.Verdict != "" {
			return "execution failed under the default schedule: " + first(res.Verdict)
		}
	} else {
		data, err, p = encode(src, o)
	}
	if p != "" {
		return "Encode panicked: " + first(p)
	}
	if err != nil {
		return "Encode rejected a valid option set: " + err.Error()
	}
	if ep.delivered == 0 {
		return "harness: EncodeFrame wrapper was not reached"
	}
	if ep.w != cs.Img.W || ep.h != cs.Img.H {
		return fmt.Sprintf("encoder works on %dx%d, source is %dx%d", ep.w, ep.h, cs.Img.W, cs.Img.H)
	}
	f, perr := riffwalk.Parse(data)
	if perr != nil || len(f.Frames) != 1 {
		return "output not parseable"
	}
	pre, derr := refdec.DecodeVP8(f.Frames[0].Bitstream, true)
	if derr != nil {
		return "independent decoder rejects the bitstream: " + derr.Error()
	}
	if pre.Rect.Dx() != cs.Img.W || pre.Rect.Dy() != cs.Img.H {
		return fmt.Sprintf("decoded picture is %dx%d, source is %dx%d", pre.Rect.Dx(), pre.Rect.Dy(), cs.Img.W, cs.Img.H)
	}
	if d := cmpPlanes(pre, ep.y, ep.u, ep.v, ep.ys, ep.uvs, cs.Img.W, cs.Img.H); d != "" {
		return "the encoder's reconstruction differs from what a decoder obtains before in-loop deblocking: encoder " + d
	}
	got, gerr, gp := decode(data)
	if gp != "" || gerr != nil {
		return fmt.Sprintf("Decode fails on Encode's output: %v %s", gerr, first(gp))
	}
	if b := got.Bounds(); b.Dx() != cs.Img.W || b.Dy() != cs.Img.H {
		return fmt.Sprintf("Decode returns %dx%d, source is %dx%d", b.Dx(), b.Dy(), cs.Img.W, cs.Img.H)
	}
	if f.Frames[0].VP8 != nil && f.Frames[0].VP8.FilterLevel == 0 {
		if yc, ok := got.(*image.YCbCr); ok {
			if d := cmpPlanes(yc, ep.y, ep.u, ep.v, ep.ys, ep.uvs, cs.Img.W, cs.Img.H); d != "" {
				return "loop filter disabled, but the decoded planes differ from the encoder's reconstruction: encoder " + d
			}
		}
	}
	return ""
}

var c06Hooked = true

func init() {
	registerCases[c06Case]("C06", "exploration",
		"10 pictures (sizes 16x16..100x65 incl. non-multiples of 16, 1-macroblock-wide, >= 4 macroblock rows; noise, gradient, many-colour, few-colour, regions, with alpha) x lossy options with at most 2 (thorough 3) fields away from the defaults (16 fields: Quality, Method, Preset, Segments, Partitions, Pass, filter strength/sharpness/type, SNS, Preprocessing, QMin/QMax, TargetSize, TargetPSNR, sharp YUV, Exact) x worker count {1: serial paths, 3: parallel paths under the deterministic default schedule}; plus every ordered pair of Methods 0..6 on a recycled (pooled) encoder for 3 textured pictures, plus two large pictures (more than 32768 tokens) x Partitions 0..3 x Method {4,0,6} x Quality {75,100}, plus two pictures of more than 510 macroblocks of which all but one look alike (skewed segment populations) x 3 Methods x 2 Segments settings, plus a skip-probability sweep (4 macroblock counts x 1,2,3,5 skippable macroblocks inside noise x 3 Methods x 2 partition counts); the encoder's reconstruction planes, captured by an overlay wrapper around (*VP8Encoder).EncodeFrame, must equal the independent decoder's planes before the loop filter, and webp.Decode's planes when the frame's filter level is 0",
		[]string{"reconstruction planes are read from VP8Encoder.yPlane/uPlane/vPlane right after EncodeFrame returns (overlay accessor; skipped and reported if the fields are renamed)", "pools never reuse", "independent decoder: vendored x/image vp8 with the loop filter switched off"},
		func(e *fw.Env) int {
			if e.Quick() {
				return 2
			}
			return 3
		},
		func(e *fw.Env) func(c *choice.Ctx) caseI {
			images := c06Images
			if !e.Quick() {
				images = c06Images[:6]
			}
			return func(c *choice.Ctx) caseI {
				cs := &c06Case{Seed: e.Seed, Dev: map[string]int{}, PrevM: -1}
				part := c.PickFree(5, "part")
				if part == 4 {
					// skip-probability sweep: N macroblocks of which K (flat blocks inside noise) can be
					// skipped; (N-K)*255/N takes the values 240..253 - the range in which writers switch the
					// skip flag on and off - and the token partitions must agree with whatever was decided
					sz := [][2]int{{128, 128}, {160, 160}, {112, 80}, {256, 208}}[c.PickFree(4, "size")]
					k := []int{1, 2, 3, 5}[c.PickFree(4, "flat")]
					cs.Img = c02Img{sz[0], sz[1], fmt.Sprintf("noiseflat%d", k), "opaque"}
					cs.Workers = []int{1, 3}[c.PickFree(2, "workers")]
					if v := c.PickFree(3, "Method"); v > 0 {
						cs.Dev["Method"] = []int{1, 6}[v-1] // Method 0 / 6
					}
					if v := c.PickFree(2, "Partitions"); v > 0 {
						cs.Dev["Partitions"] = 2
					}
					return cs
				}
				if part == 3 {
					// more than 510 macroblocks of which all but one look alike: segment populations so
					// skewed that the coded segment-tree probabilities saturate
					skew := []c02Img{{368, 368, "oneflat", "opaque"}, {512, 512, "oneflat", "opaque"}}
					cs.Img = skew[c.PickFree(len(skew), "img")]
					cs.Workers = []int{1, 3}[c.PickFree(2, "workers")]
					if v := c.PickFree(3, "Method"); v > 0 {
						cs.Dev["Method"] = []int{1, 3}[v-1]
					}
					if v := c.PickFree(2, "Segments"); v > 0 {
						cs.Dev["Segments"] = 2 // Segments = 2
					}
					return cs
				}
				if part == 1 {
					// recycled-encoder part: method pairs on textured pictures
					seq := []c02Img{{48, 64, "noise", "opaque"}, {100, 65, "noise", "opaque"}, {64, 80, "regions4", "opaque"}}
					cs.Img = seq[c.PickFree(len(seq), "img")]
					cs.Workers = []int{1, 3}[c.PickFree(2, "workers")]
					cs.PrevM = c.PickFree(7, "prevm")
					cs.M = c.PickFree(7, "m")
					return cs
				}
				if part == 2 {
					// large noisy pictures (token stream longer than one token-buffer page) x partitions x method x quality
					big := []c02Img{{200, 136, "noise", "opaque"}, {152, 200, "many", "opaque"}}
					cs.Img = big[c.PickFree(len(big), "img")]
					cs.Workers = []int{1, 3}[c.PickFree(2, "workers")]
					if v := c.PickFree(4, "Partitions"); v > 0 {
						cs.Dev["Partitions"] = v
					}
					if v := c.PickFree(3, "Method"); v > 0 {
						cs.Dev["Method"] = []int{1, 6}[v-1] // Method 0 / 6
					}
					if v := c.PickFree(2, "Quality"); v > 0 {
						cs.Dev["Quality"] = 4 // Quality 100
					}
					return cs
				}
				cs.Img = images[c.PickFree(len(images), "img")]
				cs.Workers = []int{1, 3}[c.PickFree(2, "workers")]
				for _, f := range c06Fields {
					if i := c.Pick(len(f.vals), f.name); i > 0 {
						cs.Dev[f.name] = i
					}
				}
				return cs
			}
		})
}
