package checks

import (
	"encoding/json"
	"fmt"
	"image"
	"image/color"
	"time"

	"github.com/deepteams/webp/animation"
	"github.com/deepteams/webp/internal/zzverif/bfs"
	"github.com/deepteams/webp/internal/zzverif/fw"
	"github.com/deepteams/webp/internal/zzverif/refdec"
)

// C09 — animation playback implements the container's compositing rules
// (explicit-state BFS over the real AnimDecoder + exhaustive blend sweep).

type c09Frame struct {
	Rect     [4]int // x, y, w, h
	NoBlend  bool
	Dispose  bool
	HasAlpha bool
	Fill     string
}

const c09W, c09H = 4, 4

var c09Frames = func() []c09Frame {
	var out []c09Frame
	// inside; partly outside in both directions; outside; larger; shifted; and the one-directional
	// overhangs (full-width frame hanging over the bottom edge only, full-height frame over the
	// right edge only, narrow frame over the bottom), an interior frame and a one-row frame
	rects := [][4]int{{0, 0, 4, 4}, {0, 0, 2, 2}, {2, 2, 2, 2}, {2, 2, 3, 3}, {4, 4, 4, 4}, {0, 0, 5, 5}, {1, 0, 4, 4},
		{0, 2, 4, 3}, {2, 0, 3, 4}, {1, 2, 2, 3}, {1, 1, 2, 2}, {0, 3, 4, 1},
		// entirely outside in ONE direction only: a canvas-wide frame whose offset lies beyond the
		// bottom edge, a canvas-high frame beyond the right edge (bulk-copy shortcuts key on the
		// other dimension fitting)
		{0, 6, 4, 2}, {6, 0, 2, 4}}
	fills := []string{"opaqueA", "opaqueB", "a128", "a1", "a254", "transparent", "twotone"}
	for _, r := range rects {
		for _, nb := range []bool{false, true} {
			for _, dp := range []bool{false, true} {
				for _, f := range fills {
					out = append(out, c09Frame{r, nb, dp, true, f})
					if f == "opaqueA" || f == "opaqueB" {
						out = append(out, c09Frame{r, nb, dp, false, f})
					}
				}
			}
		}
	}
	return out
}()

func (f *c09Frame) image() *image.NRGBA {
	w, h := f.Rect[2], f.Rect[3]
	m := image.NewNRGBA(image.Rect(0, 0, w, h))
	for y := 0; y < h; y++ {
		for x := 0; x < w; x++ {
			var c color.NRGBA
			switch f.Fill {
			case "opaqueA":
				c = color.NRGBA{200, 30, 10, 255}
			case "opaqueB":
				c = color.NRGBA{10, 90, 250, 255}
			case "a128":
				c = color.NRGBA{60, 200, 100, 128}
			case "a1":
				c = color.NRGBA{255, 255, 0, 1}
			case "a254":
				c = color.NRGBA{0, 255, 255, 254}
			case "transparent":
				c = color.NRGBA{77, 77, 77, 0}
			case "twotone":
				if (x+y)%2 == 0 {
					c = color.NRGBA{200, 30, 10, 255}
				} else {
					c = color.NRGBA{90, 90, 90, 128}
				}
			}
			m.SetNRGBA(x, y, c)
		}
	}
	return m
}

func (f *c09Frame) String() string {
	return fmt.Sprintf("{rect=%v noblend=%v dispose=%v hasalpha=%v fill=%s}", f.Rect, f.NoBlend, f.Dispose, f.HasAlpha, f.Fill)
}

type c09Sys struct {
	frames []c09Frame
	maxOps int
}

func (s *c09Sys) NOps(depth int) int { return len(s.frames) }

func (s *c09Sys) Describe(h []int) string {
	d := ""
	for _, i := range h {
		d += s.frames[i].String() + " "
	}
	return d
}

func (s *c09Sys) build(h []int) (*animation.Animation, []refdec.RFrame) {
	an := &animation.Animation{CanvasWidth: c09W, CanvasHeight: c09H}
	var rf []refdec.RFrame
	for _, i := range h {
		f := &s.frames[i]
		img := f.image()
		fr := animation.Frame{Image: img, Duration: 10 * time.Millisecond, OffsetX: f.Rect[0], OffsetY: f.Rect[1], HasAlpha: f.HasAlpha}
		if f.NoBlend {
			fr.Blend = animation.BlendNone
		}
		if f.Dispose {
			fr.Dispose = animation.DisposeBackground
		}
		an.Frames = append(an.Frames, fr)
		rf = append(rf, refdec.RFrame{X: f.Rect[0], Y: f.Rect[1], Img: img, NoBlend: f.NoBlend, Dispose: f.Dispose})
	}
	return an, rf
}

func snapDigest(m *image.NRGBA) string { return fw.Digest(m.Pix) }

func (s *c09Sys) Exec(h []int) (st bfs.Step) {
	defer func() {
		if r := recover(); r != nil {
			st.Violation = fmt.Sprintf("panic: %v", r)
		}
	}()
	an, rf := s.build(h)
	d, err := animation.NewAnimDecoder(an)
	if err != nil {
		return bfs.Step{Violation: "NewAnimDecoder: " + err.Error()}
	}
	var snaps []*image.NRGBA
	var digests []string
	var prev *image.NRGBA
	var prevRect image.Rectangle
	prevDispose := false
	for k := range h {
		if !d.HasNext() {
			return bfs.Step{Violation: fmt.Sprintf("HasNext is false before frame %d of %d", k, len(h))}
		}
		snap, dur, err := d.NextFrame()
		if err != nil {
			return bfs.Step{Violation: fmt.Sprintf("NextFrame %d: %v", k, err)}
		}
		if dur != 10*time.Millisecond {
			return bfs.Step{Violation: fmt.Sprintf("frame %d: duration %v", k, dur)}
		}
		// only the last step is new (earlier ones were verified on the parent history),
		// but all are cheap: verify every step so that every history is self-contained
		if v := refdec.CheckStep(c09W, c09H, prev, prevRect, prevDispose, &rf[k], snap, false); v != "" {
			return bfs.Step{Violation: fmt.Sprintf("frame %d: %s", k, v)}
		}
		snaps = append(snaps, snap)
		digests = append(digests, snapDigest(snap))
		prev, prevRect, prevDispose = snap, rf[k].Rect(), rf[k].Dispose
	}
	if d.HasNext() {
		return bfs.Step{Violation: "HasNext is true after the last frame"}
	}
	// state key: the decoder's complete private state + the model state.
	// Skipped fields (merged states have the same futures):
	//   anim: the frame list to come is the search's own choice, the past list is
	//         summarised by the canvases and prev* fields;
	//   pos:  only enters isKeyFrame as idx == 0, so it is canonicalised to min(pos,1).
	hs := bfs.NewHasher("anim", "pos")
	hs.Value(d)
	if len(h) > 0 {
		hs.U64(1)
	}
	hs.Bytes(prev.Pix)
	hs.Value(prevRect)
	hs.Value(prevDispose)
	key := hs.Sum()
	// Reset replays identically; snapshots already returned are not modified
	d.Reset()
	for k := range h {
		snap, _, err := d.NextFrame()
		if err != nil {
			return bfs.Step{Violation: fmt.Sprintf("after Reset: NextFrame %d: %v", k, err)}
		}
		if snapDigest(snap) != digests[k] {
			return bfs.Step{Violation: fmt.Sprintf("after Reset frame %d differs from the first playback", k)}
		}
	}
	for k := range snaps {
		if snapDigest(snaps[k]) != digests[k] {
			return bfs.Step{Violation: fmt.Sprintf("snapshot %d returned earlier was modified by later calls", k)}
		}
	}
	return bfs.Step{Key: key}
}

// blendSweep checks alphaBlendNRGBA on a product of operands.
func blendSweep(e *fw.Env, r *fw.Result) {
	f := animation.VerifAlphaBlend
	if f == nil {
		r.Skip("alphaBlendNRGBA not found in the tree: blend sweep skipped")
		return
	}
	var grid []int
	if e.Quick() {
		for v := 0; v < 256; v += 16 {
			grid = append(grid, v)
		}
		grid = append(grid, 1, 127, 128, 254, 255)
	} else {
		for v := 0; v < 256; v++ {
			grid = append(grid, v)
		}
	}
	var n int64
	bad := 0
	for sa := 0; sa < 256; sa++ {
		if !e.Mine(sa) {
			continue
		}
		if e.Expired() {
			r.Cap("deadline reached inside the blend sweep")
			break
		}
		for da := 0; da < 256; da++ {
			for _, sc := range grid {
				for _, dc := range grid {
					src := color.NRGBA{uint8(sc), uint8(dc), uint8(255 - sc), uint8(sa)}
					dst := color.NRGBA{uint8(dc), uint8(sc), uint8(255 - dc), uint8(da)}
					got := f(src, dst)
					n++
					if !refdec.BlendAccept(src, dst, got) {
						bad++
						if bad <= 3 {
							r.Violate(fmt.Sprintf("blend srcA=%d dstA=%d", sa, da),
								fmt.Sprintf("alphaBlendNRGBA(%v over %v) = %v; libwebp arithmetic gives %v, specification %s", src, dst, got, refdec.LibwebpBlend(src, dst), "differs by >= 1"),
								map[string]any{"blend": []color.NRGBA{src, dst}})
						}
					}
				}
			}
		}
	}
	r.Count("blend_tuples_checked", n)
	r.Eval(n)
}

func init() {
	fw.Register(&fw.Check{
		ID: "C09", Level: "model_checking", Shards: shards16,
		Rule:   fmt.Sprint("explicit-state BFS over the real AnimDecoder: transition = NextFrame on one more frame from a ", len(c09Frames), "-frame alphabet on a 4x4 canvas (14 rectangles: in/partly out in both or in one direction only/outside diagonally or in one direction only/larger/interior/one row x blend x dispose x HasAlpha x 7 pixel fills), depth 3 quick / up to 6 thorough, states merged by reflection hash of the decoder's private state + model state; every history also checks Reset-replay and snapshot immutability; blend arithmetic swept over all alpha pairs x channel grid (thorough: all 2^32 operand tuples)"),
		Assume: []string{"reference compositor written from the container specification, checked step-wise against the previous verified canvas (no key-frame shortcut)", "blend results accept libwebp's documented integer formula or the specification's real formula within rounding", "state merging skips AnimDecoder.anim and canonicalises pos to min(pos,1) (argument in c09.go)"},
		Run: func(e *fw.Env, r *fw.Result) {
			pin()
			sys := &c09Sys{frames: c09Frames}
			depth := 3
			var maxT int64 = 48_000_000
			if !e.Quick() {
				depth = 6
				maxT = 400_000_000
			}
			var samples int
			st := bfs.Run(sys, bfs.Config{MaxDepth: depth, Shard: e.Shard, NShard: e.NShard, MaxTransitions: maxT / int64(e.NShard), Stop: e.Expired,
				OnViolation: func(h []int, v string) {
					key := "playback " + sys.Describe(h)
					r.Violate(key, v+" [frames "+sys.Describe(h)+"]", map[string]any{"hist": h})
				},
				OnState: func(key uint64, h []int) {
					r.DistinctHash(key)
					if samples < 2 && len(h) >= 2 {
						samples++
						r.Sample(4, map[string]any{"history": sys.Describe(h)})
					}
				}})
			r.Transitions += st.Transitions
			r.Traces += st.Transitions // every history is executed on the implementation in lock-step with the model
			if st.Capped != "" {
				r.Cap("%s", st.Capped)
			}
			r.SetInfo("bfs_depth_completed", st.Depth)
			if e.Shard == 0 {
				r.SetInfo("frontier_sizes_shard0", st.PerDepth)
				r.Count("frame_alphabet", int64(len(c09Frames)))
			}
			blendSweep(e, r)
		},
		Post: func(e *fw.Env, r *fw.Result) { r.States = int64(len(r.DistinctSet)) },
		Replay: func(e *fw.Env, raw json.RawMessage) string {
			pin()
			var rp struct {
				Hist  []int
				Blend []color.NRGBA
			}
			json.Unmarshal(raw, &rp)
			if len(rp.Blend) == 2 {
				got := animation.VerifAlphaBlend(rp.Blend[0], rp.Blend[1])
				if !refdec.BlendAccept(rp.Blend[0], rp.Blend[1], got) {
					return fmt.Sprintf("alphaBlendNRGBA(%v over %v) = %v", rp.Blend[0], rp.Blend[1], got)
				}
				return ""
			}
			sys := &c09Sys{frames: c09Frames}
			return sys.Exec(rp.Hist).Violation
		},
	})
}
