package checks

import (
	"encoding/binary"
	"fmt"

	"github.com/deepteams/webp/internal/dsp"
)

// C13, kernel level — every kernel that has an assembly implementation on some
// architecture is called through the package's dispatch points over an
// enumerated input family (boundary values at every position, every pair of
// boundary patterns, every length up to a few vector widths); the outputs are
// digested per family and compared between the builds exactly like the
// pipeline cases.  Input magnitudes stay inside what a valid stream or an
// 8-bit picture can produce below the range of the recorded IDCT finding.

const kBPS = dsp.BPS

// kPat fills buf with boundary pattern k (8 patterns).
func kPat(buf []byte, k int) {
	s := uint32(12345 + k)
	for i := range buf {
		x, y := i%kBPS, i/kBPS
		switch k {
		case 0:
			buf[i] = 0
		case 1:
			buf[i] = 255
		case 2:
			buf[i] = byte(((x + y) & 1) * 255)
		case 3:
			buf[i] = byte(x*16 + y)
		case 4:
			buf[i] = byte((1 - (x+y)&1) * 255)
		case 5:
			s = s*1664525 + 1013904223
			buf[i] = byte(s >> 24)
		case 6:
			buf[i] = byte(127 + (x+y)&1)
		default:
			buf[i] = byte((x & 1) * 255)
		}
	}
}

const kNPat = 8

var kCoefVals = []int16{1, -1, 2, -2, 3, -3, 4, -4, 7, -8, 64, -64, 255, -255, 256, -256, 1023, -1024, 2047, -2048}

func i16Bytes(v []int16) []byte {
	out := make([]byte, 2*len(v))
	for i, x := range v {
		binary.LittleEndian.PutUint16(out[2*i:], uint16(x))
	}
	return out
}

func c13KernelCases() []c13Case {
	var out []c13Case
	add := func(n string, f func() []byte) { out = append(out, c13Case{"kernel " + n, f}) }
	const off = 8*kBPS + 8 // block origin inside a 40-row work buffer
	newBuf := func(k int) []byte {
		b := make([]byte, 40*kBPS)
		kPat(b, k)
		return b
	}
	block := func(b []byte, w, h int) []byte {
		var o []byte
		for y := 0; y < h; y++ {
			o = append(o, b[off+y*kBPS:off+y*kBPS+w]...)
		}
		return o
	}
	// coefficient programs: one non-zero value at every position; DC plus one AC
	coefPrograms := func(n int, f func(c []int16)) {
		c := make([]int16, n)
		for pos := 0; pos < 16; pos++ {
			for _, v := range kCoefVals {
				for i := range c {
					c[i] = 0
				}
				c[pos] = v
				if n > 16 {
					c[16+15-pos] = -v
				}
				f(c)
			}
		}
		for _, dc := range kCoefVals {
			for pos := 1; pos < 16; pos += 2 {
				for _, v := range []int16{3, -64, 255, -1024, 2047} {
					for i := range c {
						c[i] = 0
					}
					c[0], c[pos] = dc, v
					if n > 16 {
						c[16], c[16+pos^1] = -dc, v
					}
					f(c)
				}
			}
		}
	}
	for _, two := range []bool{false, true} {
		two := two
		for _, bg := range []int{0, 3, 1, 5} {
			bg := bg
			add(fmt.Sprintf("Transform doTwo=%v background=%d", two, bg), func() []byte {
				var o []byte
				coefPrograms(32, func(c []int16) {
					b := newBuf(bg)
					cc := append([]int16{}, c...)
					dsp.Transform(cc, b[off:], two)
					o = append(o, block(b, 8, 4)...)
				})
				return o
			})
			add(fmt.Sprintf("ITransform doTwo=%v ref=%d", two, bg), func() []byte {
				var o []byte
				coefPrograms(32, func(c []int16) {
					ref, dst := newBuf(bg), newBuf(6)
					dsp.ITransform(ref[off:], append([]int16{}, c...), dst[off:], two)
					o = append(o, block(dst, 8, 4)...)
					dst2 := newBuf(6)
					dsp.ITransformDirect(ref[off:], append([]int16{}, c...), dst2[off:], two)
					o = append(o, block(dst2, 8, 4)...)
				})
				return o
			})
		}
	}
	for _, bg := range []int{0, 1, 3, 5} {
		bg := bg
		add(fmt.Sprintf("TransformUV background=%d", bg), func() []byte {
			var o []byte
			c := make([]int16, 64)
			for blk := 0; blk < 4; blk++ {
				for pos := 0; pos < 16; pos++ {
					for _, v := range kCoefVals {
						for i := range c {
							c[i] = 0
						}
						c[blk*16+pos] = v
						c[((blk+1)&3)*16+15-pos] = -v
						b := newBuf(bg)
						dsp.TransformUV(append([]int16{}, c...), b[off:])
						o = append(o, block(b, 8, 8)...)
					}
				}
			}
			return o
		})
	}
	add("TransformDC TransformAC3 TransformDCUV", func() []byte {
		var o []byte
		for _, bg := range []int{0, 1, 5} {
			for _, v := range kCoefVals {
				for _, w := range []int16{0, 5, -300} {
					c := make([]int16, 64)
					c[0], c[1], c[4], c[16], c[32], c[48] = v, w, -w, -v, w, v
					b := newBuf(bg)
					dsp.TransformDC(append([]int16{}, c...), b[off:])
					o = append(o, block(b, 4, 4)...)
					b = newBuf(bg)
					dsp.TransformAC3(append([]int16{}, c...), b[off:])
					o = append(o, block(b, 4, 4)...)
					b = newBuf(bg)
					dsp.TransformDCUV(append([]int16{}, c...), b[off:])
					o = append(o, block(b, 8, 8)...)
				}
			}
		}
		return o
	})
	// forward transforms: every pair of boundary patterns, at two block positions
	add("FTransform FTransform2 FTransformDirect", func() []byte {
		var o []byte
		for a := 0; a < kNPat; a++ {
			for b := 0; b < kNPat; b++ {
				src, ref := newBuf(a), newBuf(b)
				for _, d := range []int{0, 4*kBPS + 4, 1} {
					res := make([]int16, 32)
					dsp.FTransform(src[off+d:], ref[off+d:], res)
					o = append(o, i16Bytes(res[:16])...)
					dsp.FTransformDirect(src[off+d:], ref[off+d:], res)
					o = append(o, i16Bytes(res[:16])...)
					if dsp.FTransform2 != nil {
						dsp.FTransform2(src[off+d:], ref[off+d:], res)
						o = append(o, i16Bytes(res)...)
					}
				}
			}
		}
		return o
	})
	whtVals := []int16{1, -1, 3, -3, 255, -255, 2040, -2040, 4080, -4080}
	add("FTransformWHT", func() []byte {
		var o []byte
		in := make([]int16, 256)
		res := make([]int16, 16)
		run := func() {
			dsp.FTransformWHT(in, res)
			o = append(o, i16Bytes(res)...)
		}
		// the forward WHT reads the DC of 16 blocks of 16 coefficients
		for pos := 0; pos < 16; pos++ {
			for _, v := range whtVals {
				for i := range in {
					in[i] = 0
				}
				in[pos*16] = v
				run()
				for i := 0; i < 16; i++ {
					in[i*16] = v
				}
				in[pos*16] = -v
				run()
			}
		}
		return o
	})
	add("TransformWHT", func() []byte {
		var o []byte
		in := make([]int16, 16)
		res := make([]int16, 256)
		for pos := 0; pos < 16; pos++ {
			for _, v := range []int16{1, -1, 3, -3, 255, -255, 2047, -2048, 20000, -20000, 32767, -32768} {
				for i := range in {
					in[i] = 0
				}
				in[pos] = v
				dsp.TransformWHT(in, res)
				o = append(o, i16Bytes(res)...)
				for i := range in {
					in[i] = v / 16
				}
				in[pos] = -v
				dsp.TransformWHT(in, res)
				o = append(o, i16Bytes(res)...)
			}
		}
		return o
	})
	// intra predictors: every mode x top pattern x left pattern x corner
	predBuf := func(top, left, corner int) []byte {
		b := make([]byte, 40*kBPS)
		t, l := make([]byte, 40*kBPS), make([]byte, 40*kBPS)
		kPat(t, top)
		kPat(l, left)
		for i := range b {
			b[i] = 0x55
		}
		for x := 0; x < 24; x++ {
			b[off-kBPS+x] = t[x+3]
		}
		for y := 0; y < 16; y++ {
			b[off-1+y*kBPS] = l[(y+1)*kBPS]
		}
		b[off-kBPS-1] = byte(corner)
		return b
	}
	predFamily := func(name string, size int, nmodes int, call func(mode int, b []byte)) {
		add(name, func() []byte {
			var o []byte
			for mode := 0; mode < nmodes; mode++ {
				for top := 0; top < kNPat; top++ {
					for left := 0; left < kNPat; left++ {
						for _, corner := range []int{0, 128, 255} {
							b := predBuf(top, left, corner)
							call(mode, b)
							o = append(o, block(b, size, size)...)
						}
					}
				}
			}
			return o
		})
	}
	predFamily("PredLuma16 table", 16, 7, func(m int, b []byte) { dsp.PredLuma16[m](b, off) })
	predFamily("PredLuma16Direct", 16, 7, func(m int, b []byte) { dsp.PredLuma16Direct(m, b, off) })
	predFamily("PredChroma8 table", 8, 7, func(m int, b []byte) { dsp.PredChroma8[m](b, off) })
	predFamily("PredChroma8Direct", 8, 7, func(m int, b []byte) { dsp.PredChroma8Direct(m, b, off) })
	predFamily("PredLuma4 table", 4, 10, func(m int, b []byte) { dsp.PredLuma4[m](b, off) })
	// simple loop filter: every 4-tuple (p1,p0,q0,q1) of boundary values x thresholds
	add("SimpleVFilter16 SimpleHFilter16", func() []byte {
		al := []byte{0, 1, 3, 64, 126, 127, 128, 129, 192, 252, 254, 255}
		var tuples [][4]byte
		for _, a := range al {
			for _, b := range al {
				for _, c := range al {
					for _, d := range al {
						tuples = append(tuples, [4]byte{a, b, c, d})
					}
				}
			}
		}
		var o []byte
		for _, th := range []int{0, 1, 5, 20, 63, 127} {
			for i := 0; i+16 <= len(tuples); i += 16 {
				v, h := make([]byte, 40*kBPS), make([]byte, 40*kBPS)
				for k := 0; k < 16; k++ {
					t := tuples[i+k]
					for j := 0; j < 4; j++ {
						v[off+(j-2)*kBPS+k] = t[j]
						h[off+k*kBPS+j-2] = t[j]
					}
				}
				dsp.SimpleVFilter16(v, off, kBPS, th)
				dsp.SimpleHFilter16(h, off, kBPS, th)
				for j := -2; j < 2; j++ {
					o = append(o, v[off+j*kBPS:off+j*kBPS+16]...)
				}
				for k := 0; k < 16; k++ {
					o = append(o, h[off+k*kBPS-2:off+k*kBPS+2]...)
				}
			}
		}
		return o
	})
	add("SimpleVFilter16i complex filters on patterns", func() []byte {
		var o []byte
		for a := 0; a < kNPat; a++ {
			for _, th := range []int{1, 9, 40, 127} {
				for _, it := range []int{0, 3, 20} {
					for _, hev := range []int{0, 2} {
						b := newBuf(a)
						dsp.SimpleVFilter16i(b, off, kBPS, th)
						dsp.SimpleHFilter16i(b, off, kBPS, th)
						dsp.VFilter16(b, off, kBPS, th, it, hev)
						dsp.HFilter16(b, off, kBPS, th, it, hev)
						dsp.VFilter16i(b, off, kBPS, th, it, hev)
						dsp.HFilter16i(b, off, kBPS, th, it, hev)
						u, v := newBuf(a), newBuf((a+3)%kNPat)
						dsp.VFilter8(u, v, off, off, kBPS, th, it, hev)
						dsp.HFilter8(u, v, off, off, kBPS, th, it, hev)
						dsp.VFilter8i(u, v, off, off, kBPS, th, it, hev)
						dsp.HFilter8i(u, v, off, off, kBPS, th, it, hev)
						o = append(o, b[off-4*kBPS-4:off+20*kBPS]...)
						o = append(o, u[off-4*kBPS-4:off+12*kBPS]...)
						o = append(o, v[off-4*kBPS-4:off+12*kBPS]...)
					}
				}
			}
		}
		return o
	})
	// distortion metrics: every pair of boundary patterns at three alignments
	add("SSE4x4 SSE16x16 TDisto4x4 TDisto16x16", func() []byte {
		var o []byte
		put := func(v int) { o = binary.LittleEndian.AppendUint64(o, uint64(int64(v))) }
		for a := 0; a < kNPat; a++ {
			for b := 0; b < kNPat; b++ {
				p, q := newBuf(a), newBuf(b)
				for _, d := range []int{0, 1, 4*kBPS + 4} {
					put(dsp.SSE4x4(p[off+d:], q[off+d:]))
					put(dsp.SSE16x16(p[off+d:], q[off+d:]))
					put(dsp.SSE4x4Direct(p[off+d:], q[off+d:]))
					put(dsp.SSE16x16Direct(p[off+d:], q[off+d:]))
					put(dsp.TDisto4x4(p[off+d:], q[off+d:]))
					put(dsp.TDisto16x16(p[off+d:], q[off+d:]))
				}
			}
		}
		return o
	})
	// lossless green transforms: every length up to 40 x four pixel patterns
	add("AddGreenToBlueAndRed SubtractGreen", func() []byte {
		var o []byte
		for n := 0; n <= 40; n++ {
			for k := 0; k < 4; k++ {
				px := make([]uint32, n+3)
				s := uint32(99 + k)
				for i := range px {
					switch k {
					case 0:
						px[i] = 0xffffffff
					case 1:
						px[i] = 0x00ff00ff
					case 2:
						px[i] = 0xff00ff00 + uint32(i)
					default:
						s = s*1664525 + 1013904223
						px[i] = s
					}
				}
				for _, f := range []func([]uint32, int){dsp.AddGreenToBlueAndRed, dsp.SubtractGreen, dsp.AddGreenToBlueAndRedFunc, dsp.SubtractGreenFunc} {
					c := append([]uint32{}, px...)
					f(c, n)
					for _, v := range c {
						o = binary.LittleEndian.AppendUint32(o, v)
					}
				}
			}
		}
		return o
	})
	// fancy upsampler + YUV->RGB through constant-chroma rows: every y x every u x 44 values of v
	// (every 8th value and the boundaries), and every y x every v x the same 44 values of u;
	// R and B (two-variable functions) are covered completely, G on 5.8M of the 16.7M triples
	sub := []int{1, 2, 3, 15, 16, 17, 127, 129, 253, 254, 255, 239}
	for i := 0; i < 256; i += 8 {
		sub = append(sub, i)
	}
	for part := 0; part < 2; part++ {
		part := part
		add(fmt.Sprintf("UpsampleLinePairNRGBA every y x every %s x 44 values of the other", []string{"u", "v"}[part]), func() []byte {
			h := uint64(14695981039346656037)
			y := make([]byte, 256)
			for i := range y {
				y[i] = byte(i)
			}
			u, v := make([]byte, 128), make([]byte, 128)
			top, bot := make([]byte, 256*4), make([]byte, 256*4)
			for a := 0; a < 256; a++ {
				for _, b := range sub {
					uu, vv := a, b
					if part == 1 {
						uu, vv = b, a
					}
					for i := range u {
						u[i], v[i] = byte(uu), byte(vv)
					}
					dsp.UpsampleLinePairNRGBA(y, y, u, v, u, v, top, bot, nil, nil, 256)
					for _, row := range [][]byte{top, bot} {
						for i := 0; i+4 <= len(row); i += 4 {
							h = (h ^ uint64(binary.LittleEndian.Uint32(row[i:]))) * 1099511628211
						}
					}
				}
			}
			return binary.LittleEndian.AppendUint64(nil, h)
		})
	}
	// ... and every width up to 40, and the widths around the 2048-pixel scratch buffer of the
	// amd64 version, with varying chroma, with and without a second row / alpha
	upWidths := []int{2047, 2048, 2049, 2050, 2111, 4096, 4097}
	for w := 1; w <= 40; w++ {
		upWidths = append(upWidths, w)
	}
	add("UpsampleLinePairNRGBA widths 1..40 and around 2048 and 4096", func() []byte {
		var o []byte
		for _, w := range upWidths {
			for k := 0; k < kNPat; k++ {
				const seg = 4224 // room for the widest row
				src := make([]byte, 7*seg)
				kPat(src, k)
				if k == 5 || w > 40 { // rows must differ from one another also when the pattern has period 32
					s := uint32(777 + k)
					for i := range src {
						s = s*1664525 + 1013904223
						if k != 0 && k != 1 {
							src[i] ^= byte(s >> 24)
						}
					}
				}
				y0, y1 := src[0:w], src[seg:seg+w]
				cw := (w + 1) / 2
				u0, v0, u1, v1 := src[2*seg:2*seg+cw], src[3*seg:3*seg+cw], src[4*seg:4*seg+cw], src[5*seg:5*seg+cw]
				al := src[6*seg : 6*seg+w]
				for variant := 0; variant < 3; variant++ {
					top, bot := make([]byte, w*4), make([]byte, w*4)
					switch variant {
					case 0:
						dsp.UpsampleLinePairNRGBA(y0, y1, u0, v0, u1, v1, top, bot, nil, nil, w)
					case 1:
						dsp.UpsampleLinePairNRGBA(y0, nil, u0, v0, u0, v0, top, nil, nil, nil, w)
					default:
						dsp.UpsampleLinePairNRGBA(y0, y1, u0, v0, u1, v1, top, bot, al, al, w)
					}
					o = append(o, top...)
					o = append(o, bot...)
				}
			}
		}
		return o
	})
	return out
}
