package checks

import (
	"bytes"
	"encoding/json"
	"fmt"
	"image"
	"os"
	"os/exec"
	"path/filepath"
	"sort"
	"strings"
	"time"

	webp "github.com/deepteams/webp"
	"github.com/deepteams/webp/animation"
	"github.com/deepteams/webp/internal/zzverif/choice"
	"github.com/deepteams/webp/internal/zzverif/fw"
	"github.com/deepteams/webp/internal/zzverif/imgs"
	"github.com/deepteams/webp/internal/zzverif/riffwalk"
	"github.com/deepteams/webp/internal/zzverif/vhook"
	"github.com/deepteams/webp/internal/zzverif/vp8gen"
	"github.com/deepteams/webp/internal/zzverif/vsync"
	"github.com/deepteams/webp/mux"
)

// C10 — results do not depend on goroutine scheduling or concurrent use
// (controlled scheduler + preemption-bounded DFS on the real code).

type c10Scen struct {
	name    string
	workers int
	quickP  int // quick: delay bound (every non-default scheduling decision costs 1)
	thorP   int // thorough: preemption bound (switches at blocking points are free, CHESS) if thorPre, else delay bound
	thorPre bool
	// calls are the public API calls of the scenario; one call = internal
	// parallelism only, several calls = one harness thread per call.
	calls []func() []byte
	fresh bool // several calls: pools never reuse (pure concurrency), else most-recent
}

func encBytes(img image.Image, o *webp.EncoderOptions) func() []byte {
	return func() []byte {
		var b bytes.Buffer
		if err := webp.Encode(&b, img, o); err != nil {
			return []byte("error: " + err.Error())
		}
		return b.Bytes()
	}
}

// liveHook, when set, receives a function that re-reads an image a call has RETURNED (the live
// object, not a copy): "images already returned are never modified by later calls" is checked by
// reading it again after the later calls. Set and cleared by the single harness thread that owns
// an execution; called by decPix on whichever thread runs the call (one at a time under the
// controlled scheduler, sequentially in C11).
var liveHook func(read func() []byte)

func imageBytes(img image.Image) []byte {
	switch m := img.(type) {
	case *image.NRGBA:
		return append([]byte(fmt.Sprint(m.Rect)), m.Pix...)
	case *image.YCbCr:
		return append(append(append([]byte(fmt.Sprint(m.Rect)), m.Y...), m.Cb...), m.Cr...)
	}
	return []byte(fmt.Sprintf("%T", img))
}

func decPix(data []byte) func() []byte {
	return func() []byte {
		img, err := webp.Decode(bytes.NewReader(data))
		if err != nil {
			return []byte("error: " + err.Error())
		}
		if h := liveHook; h != nil {
			h(func() []byte { return imageBytes(img) })
		}
		return imageBytes(img)
	}
}

func c10Scenarios(seed int64) []c10Scen {
	pin()
	lossy := func(m int) *webp.EncoderOptions {
		o := webp.DefaultOptions()
		o.Method = m
		return o
	}
	ll := func(m, q int) *webp.EncoderOptions {
		return &webp.EncoderOptions{Lossless: true, Method: m, Quality: float32(q)}
	}
	noise := func(w, h int) image.Image { return imgs.Make(w, h, "noise", "opaque", seed) }
	var out []c10Scen
	add := func(s c10Scen) { out = append(out, s) }
	add(c10Scen{name: "S1 lossy 32x64 m3 (2x4 MB) workers=2", workers: 2, quickP: 2, thorP: 2, thorPre: true, calls: []func() []byte{encBytes(noise(32, 64), lossy(3))}})
	add(c10Scen{name: "S1n lossy 16x80 m4 (1x5 MB, narrow) workers=3", workers: 3, quickP: 2, thorP: 2, thorPre: true, calls: []func() []byte{encBytes(noise(16, 80), lossy(4))}})
	add(c10Scen{name: "S2 lossy 48x80 m3 (3x5 MB) workers=3", workers: 3, quickP: 2, thorP: 3, calls: []func() []byte{encBytes(noise(48, 80), lossy(3))}})
	add(c10Scen{name: "S3 lossy+alpha 32x64 m4 workers=2", workers: 2, quickP: 2, thorP: 3, calls: []func() []byte{encBytes(imgs.Make(32, 64, "gradient", "agradient", seed), lossy(4))}})
	add(c10Scen{name: "S4 lossless 64x64 noise m4 workers=3", workers: 3, quickP: 2, thorP: 3, calls: []func() []byte{encBytes(noise(64, 64), ll(4, 75))}})
	add(c10Scen{name: "S5 lossless 224x224 m4 workers=2 (hash chain)", workers: 2, quickP: 1, thorP: 2, calls: []func() []byte{encBytes(imgs.Make(224, 224, "regions4", "opaque", seed), ll(4, 75))}})
	big := mustEncode(imgs.Make(320, 320, "gradient", "opaque", seed), ll(4, 75))
	add(c10Scen{name: "S6 lossless decode 320x320 workers=3", workers: 3, quickP: 1, thorP: 2, calls: []func() []byte{decPix(big)}})
	// S7: parallel frame decoding of a 4-frame animation
	anim := func() []byte {
		var buf bytes.Buffer
		enc := animation.NewEncoder(&buf, 16, 16, &animation.EncodeOptions{Lossless: true, Quality: 75})
		for i := 0; i < 4; i++ {
			enc.AddFrame(imgs.Make(16, 16, "noise", "opaque", seed+int64(i)), 50*time.Millisecond)
		}
		enc.Close()
		return buf.Bytes()
	}()
	add(c10Scen{name: "S7 DecodeFramesParallel 4 frames workers=2", workers: 2, quickP: 2, thorP: 2, thorPre: true, calls: []func() []byte{func() []byte {
		an, err := animation.DecodeBytes(anim)
		if err != nil {
			return []byte("error: " + err.Error())
		}
		if err := an.DecodeFramesParallel(); err != nil {
			return []byte("error: " + err.Error())
		}
		var out []byte
		for i := range an.Frames {
			if m, ok := an.Frames[i].Image.(*image.NRGBA); ok {
				out = append(out, m.Pix...)
			} else {
				out = append(out, []byte(fmt.Sprintf("frame %d: %T", i, an.Frames[i].Image))...)
			}
		}
		return out
	}}})
	small := mustEncode(imgs.Make(16, 16, "noise", "agradient", seed), nil)
	three := []func() []byte{encBytes(noise(16, 16), lossy(4)), encBytes(imgs.Make(8, 8, "c4", "binary", seed), ll(4, 75)), decPix(small)}
	add(c10Scen{name: "S8 three concurrent public calls, pools never reuse", workers: 1, quickP: 2, thorP: 2, thorPre: true, fresh: true, calls: three})
	add(c10Scen{name: "S8p three concurrent public calls sharing pools", workers: 1, quickP: 2, thorP: 3, calls: three})
	// S8q/S8d: calls that compete for the same pooled object types (same macroblock grid, codec)
	dith := webp.DefaultOptions()
	dith.Preprocessing = 2
	add(c10Scen{name: "S8q two lossy encodes of one macroblock grid sharing pools (alpha+dither, opaque YCbCr source)", workers: 1, quickP: 2, thorP: 3, calls: []func() []byte{
		encBytes(imgs.Make(24, 24, "gradient", "anoise", seed), dith), encBytes(imgs.As(imgs.Make(24, 24, "gradient", "opaque", seed), "YCbCr"), lossy(4))}})
	vpA, _ := vp8gen.Generate(vp8Preset{"dims": 4, "coeffs": 7, "filter-level": 3, "lf-delta": 2, "ymode": 6}, seed)
	vpB, _ := vp8gen.Generate(vp8Preset{"dims": 4, "coeffs": 7, "filter-level": 3, "lf-delta": 1, "ymode": 6}, seed)
	add(c10Scen{name: "S8d two lossy decodes sharing pools (loop-filter deltas updated / kept)", workers: 1, quickP: 2, thorP: 3, calls: []func() []byte{
		decPix(riffwalk.RIFF(riffwalk.ChunkBytes("VP8 ", vpA.Encode()))), decPix(riffwalk.RIFF(riffwalk.ChunkBytes("VP8 ", vpB.Encode())))}})
	// S8a/S8l/S8e: two calls of the same kind on different pictures of one size - whatever one
	// of them gives back to a pool (decoder, planes, scratch) the other can pick up at once
	alphaA := mustEncode(imgs.Make(16, 16, "noise", "agradient", seed), nil)
	alphaB := mustEncode(imgs.Make(16, 16, "gradient", "anoise", seed+1), nil)
	add(c10Scen{name: "S8a two lossy+alpha decodes (different pictures, one size) sharing pools", workers: 1, quickP: 2, thorP: 3, calls: []func() []byte{decPix(alphaA), decPix(alphaB)}})
	llA := mustEncode(imgs.Make(16, 16, "noise", "agradient", seed), ll(4, 75))
	llB := mustEncode(imgs.Make(16, 16, "c4", "binary", seed+1), ll(4, 75))
	add(c10Scen{name: "S8l two lossless decodes (different pictures, one size) sharing pools", workers: 1, quickP: 2, thorP: 3, calls: []func() []byte{decPix(llA), decPix(llB)}})
	add(c10Scen{name: "S8e two lossless encodes (palette picture, many-colour picture) sharing pools", workers: 1, quickP: 2, thorP: 3, calls: []func() []byte{
		encBytes(imgs.Make(16, 16, "c4", "binary", seed+1), ll(4, 75)), encBytes(imgs.Make(16, 16, "noise", "agradient", seed), ll(4, 75))}})
	same := imgs.Make(16, 32, "noise", "agradient", seed)
	add(c10Scen{name: "S9 two threads encode the same image object", workers: 1, quickP: 2, thorP: 3, calls: []func() []byte{encBytes(same, lossy(4)), encBytes(same, ll(4, 75))}})
	add(c10Scen{name: "S10 lossless 64x64 gradient m6 q100 workers=3", workers: 3, quickP: 2, thorP: 3, calls: []func() []byte{encBytes(imgs.Make(64, 64, "gradient", "opaque", seed), ll(6, 100))}})
	// S11: the quality >= 90 histogram refinement pass with many workers on a picture with large flat
	// areas (empty histogram tiles fall on the workers' chunk boundaries)
	add(c10Scen{name: "S11 lossless 320x320 gradient m6 q100 workers=10 (histogram remap over empty tiles)", workers: 10, quickP: 1, thorP: 2, calls: []func() []byte{encBytes(imgs.Make(320, 320, "gradient", "opaque", seed), ll(6, 100))}})
	// S12-S14: the other entry points the statement names - the animation encoder and
	// player, the muxer/demuxer and the header queries - used from several threads at once
	// (they share the codec pools, the lazily built tables and package-level hooks)
	aframes := []image.Image{imgs.Make(16, 16, "c4", "binary", seed), imgs.Make(16, 16, "c4", "binary", seed+1), imgs.Make(16, 16, "gradient", "agradient", seed+2)}
	animEnc := func(lossless, mixed bool) func() []byte {
		return func() []byte {
			var buf bytes.Buffer
			enc := animation.NewEncoder(&buf, 16, 16, &animation.EncodeOptions{Lossless: lossless, AllowMixed: mixed, Quality: 75})
			for i, f := range aframes {
				if err := enc.AddFrame(f, time.Duration(40+i)*time.Millisecond); err != nil {
					return []byte("error: " + err.Error())
				}
			}
			if err := enc.Close(); err != nil {
				return []byte("error: " + err.Error())
			}
			return buf.Bytes()
		}
	}
	animPlay := func(data []byte) func() []byte {
		return func() []byte {
			an, err := animation.DecodeBytes(data)
			if err != nil {
				return []byte("error: " + err.Error())
			}
			if err := an.DecodeFrames(); err != nil {
				return []byte("error: " + err.Error())
			}
			ad, err := animation.NewAnimDecoder(an)
			if err != nil {
				return []byte("error: " + err.Error())
			}
			var out []byte
			for ad.HasNext() {
				snap, d, err := ad.NextFrame()
				if err != nil {
					return append(out, []byte("error: "+err.Error())...)
				}
				out = append(append(out, []byte(fmt.Sprint(d))...), snap.Pix...)
			}
			return out
		}
	}
	hdr := func(data []byte) func() []byte {
		return func() []byte {
			cfg, cerr := webp.DecodeConfig(bytes.NewReader(data))
			ft, ferr := webp.GetFeatures(bytes.NewReader(data))
			return []byte(fmt.Sprintf("%v %v %v %v | %+v %v", cfg.Width, cfg.Height, modelName(cfg.ColorModel), cerr, ft, ferr))
		}
	}
	llAnim, mixAnim := animEnc(true, false)(), animEnc(false, true)()
	add(c10Scen{name: "S12 AnimEncoder (lossless) || player of a mixed animation || DecodeConfig+GetFeatures, sharing pools", workers: 1, quickP: 2, thorP: 2, thorPre: true,
		calls: []func() []byte{animEnc(true, false), animPlay(mixAnim), hdr(small)}})
	add(c10Scen{name: "S13 AnimEncoder (lossy+mixed, alpha) || AnimEncoder (lossless) || player of a lossless animation, sharing pools", workers: 1, quickP: 2, thorP: 2, thorPre: true,
		calls: []func() []byte{animEnc(false, true), animEnc(true, false), animPlay(llAnim)}})
	c14Init()
	muxAsm := func(k int) func() []byte {
		return func() []byte {
			m := mux.NewMuxer()
			for i := 0; i < 3; i++ {
				f := c14FrameSet[(k+i)%len(c14FrameSet)]
				if err := m.AddFrame(f.data, &mux.FrameOptions{Duration: 30 + i, OffsetX: 2 * i}); err != nil {
					return []byte("error: " + err.Error())
				}
			}
			m.SetLoopCount(3 + k)
			m.SetEXIF([]byte{1, 2, 3})
			var b bytes.Buffer
			if err := m.Assemble(&b); err != nil {
				return []byte("error: " + err.Error())
			}
			return b.Bytes()
		}
	}
	demux := func(data []byte) func() []byte {
		return func() []byte {
			d, err := mux.NewDemuxer(data)
			if err != nil {
				return []byte("error: " + err.Error())
			}
			out := []byte(fmt.Sprintf("%+v %d %d|", d.GetFeatures(), d.LoopCount(), d.NumFrames()))
			for i := 0; i < d.NumFrames(); i++ {
				fi, err := d.Frame(i)
				if err != nil {
					return append(out, []byte("error: "+err.Error())...)
				}
				out = append(append(append(out, []byte(fmt.Sprintf("%d,%d,%d,%v,%v|", fi.OffsetX, fi.OffsetY, fi.Duration, fi.BlendMode, fi.DisposeMode))...), fi.Data...), fi.AlphaData...)
			}
			return out
		}
	}
	add(c10Scen{name: "S14 Muxer.Assemble || Muxer.Assemble || Demuxer of a muxed animation || Decode, sharing pools", workers: 1, quickP: 2, thorP: 2, thorPre: true,
		calls: []func() []byte{muxAsm(0), muxAsm(2), demux(muxAsm(1)()), decPix(small)}})
	return out
}

// c10Exec runs the scenario once under the controlled scheduler.
func c10Exec(s *c10Scen, choose vsync.Chooser, trace bool) (results [][]byte, res vsync.Result) {
	vhook.ClearSites()
	vhook.SetDefault(s.workers)
	if s.fresh {
		vsync.SetPoolPolicy(vsync.PoolFresh, nil)
	} else {
		vsync.SetPoolPolicy(vsync.PoolMostRecent, nil)
	}
	vsync.ResetPools()
	results = make([][]byte, len(s.calls))
	type live struct {
		read func() []byte
		dig  string
	}
	var lives []live
	liveHook = func(read func() []byte) { lives = append(lives, live{read, fw.Digest(read())}) }
	defer func() {
		liveHook = nil
		if res.Verdict == "" {
			for _, l := range lives {
				if fw.Digest(l.read()) != l.dig {
					res.Verdict = "an image returned by one call was modified afterwards (by a concurrent call or a later step of its own call)"
				}
			}
		}
	}()
	res = vsync.Run(choose, 400000, trace, func() {
		if len(s.calls) == 1 {
			results[0] = s.calls[0]()
			return
		}
		var wg vsync.WaitGroup
		for i := range s.calls {
			i := i
			wg.Add(1)
			vsync.Go(func() {
				defer wg.Done()
				results[i] = s.calls[i]()
			})
		}
		wg.Wait()
	})
	return
}

func digests(r [][]byte) []string {
	out := make([]string, len(r))
	for i, b := range r {
		out[i] = fw.Digest(b)
	}
	return out
}

// c10Sequential returns, per call, the result digest the call gives when it is
// run alone (nothing else running, pools empty and never reusing): the property
// says a call made concurrently with others returns exactly that.
func c10Sequential(s *c10Scen) []map[string]bool {
	acc := make([]map[string]bool, len(s.calls))
	for i := range s.calls {
		vhook.ClearSites()
		vhook.SetDefault(s.workers)
		vsync.SetPoolPolicy(vsync.PoolFresh, nil)
		vsync.ResetPools()
		acc[i] = map[string]bool{fw.Digest(s.calls[i]()): true}
	}
	return acc
}

type c10Replay struct {
	Scenario string
	Picks    []int
	Seed     int64
	Preempt  bool
}

// chooserFor charges every non-default decision 1 in delay mode; in preemption
// mode a switch at a point where the running thread cannot continue is free.
func chooserFor(c *choice.Ctx, preempt bool) vsync.Chooser {
	return func(n, cost int, desc string) int {
		if !preempt {
			cost = 1
		}
		return c.PickCost(n, cost, "")
	}
}

func c10Check(s *c10Scen, preempt bool, ref []string, seqOK []map[string]bool, picks []int) (string, *choice.Ctx) {
	var verdict string
	c := choice.Replay(picks, func(c *choice.Ctx) {
		results, res := c10Exec(s, chooserFor(c, preempt), false)
		verdict = c10Judge(s, ref, seqOK, results, res)
	})
	return verdict, c
}

func c10Judge(s *c10Scen, ref []string, seqOK []map[string]bool, results [][]byte, res vsync.Result) string {
	if res.Verdict != "" {
		v := res.Verdict
		if i := strings.Index(v, "\n"); i > 0 {
			v = v[:i]
		}
		return v
	}
	got := digests(results)
	for i := range got {
		if len(s.calls) == 1 {
			if got[i] != ref[i] {
				return fmt.Sprintf("result differs from the non-preempted schedule (digest %s vs %s, %d vs reference bytes)", got[i], ref[i], len(results[i]))
			}
			continue
		}
		if !seqOK[i][got[i]] {
			return fmt.Sprintf("concurrent call %d returned a result (digest %s, %d bytes) that differs from what the same call returns when run alone", i, got[i], len(results[i]))
		}
	}
	return ""
}

func init() {
	fw.Register(&fw.Check{
		ID: "C10", Level: "model_checking", Shards: shards16,
		Rule:   "stateless exploration of the real code under a controlled scheduler that owns every sync/atomic/pool/channel/go operation (instrumenter rewrite R2): for each of 21 scenarios (row-pipelined lossy encoder with 1-, 2- and 3-macroblock-wide pictures, alpha, lossless encode/decode parallel sections, parallel frame decoding, concurrent public calls with and without pool sharing (mixed kinds, and pairs of one kind: lossy encodes, lossy decodes, lossy+alpha decodes, lossless decodes, lossless encodes), two threads on one image, animation encoder + player + header queries, two animation encoders + player, two muxers + demuxer + Decode) ALL schedules with at most D non-default scheduling decisions (quick: delay bound 2; thorough: preemption bound 2 with free switches at blocking points for the pipeline/channel/public-call scenarios, delay bound 3 elsewhere; per scenario in the evidence) are executed; oracle: bytes/pixels equal the non-preempted schedule (concurrent calls: each result equals what the same call returns when run alone with empty pools), no deadlock, lost wake-up, livelock or panic; plus a separate free-running -race pass of the same bodies",
		Assume: []string{"sequential consistency at synchronisation operations; plain data races are only sampled by the free-running -race pass", "a completed sync.Once is not a scheduling point", "worker vector fixed per scenario; pools most-recent (fresh for S8)"},
		Run: func(e *fw.Env, r *fw.Result) {
			if len(e.Args) > 0 && e.Args[0] == "racepass" {
				c10RacePass(e)
				return
			}
			scens := c10Scenarios(e.Seed)
			info := map[string]any{}
			for si := range scens {
				s := &scens[si]
				if only := os.Getenv("VERIF_C10_ONLY"); only != "" && strings.Fields(s.name)[0] != only {
					continue // development aid
				}
				if e.Expired() {
					r.Cap("deadline reached before scenario %s", s.name)
					break
				}
				// determinism: the default schedule twice
				r1, res1 := c10Exec(s, func(n, cost int, d string) int { return 0 }, true)
				r2, res2 := c10Exec(s, func(n, cost int, d string) int { return 0 }, true)
				if res1.Verdict != "" {
					r.Violate("schedule "+s.name+" default", "default schedule: "+first(res1.Verdict)+" ["+s.name+"]", c10Replay{s.name, nil, e.Seed, false})
					continue
				}
				if strings.Join(digests(r1), ",") != strings.Join(digests(r2), ",") || strings.Join(res1.Trace, ";") != strings.Join(res2.Trace, ";") || res2.Verdict != "" {
					r.HarnessError("scenario %s is not deterministic under the default schedule (harness nondeterminism)", s.name)
					continue
				}
				ref := digests(r1)
				var seqOK []map[string]bool
				if len(s.calls) > 1 {
					seqOK = c10Sequential(s)
				}
				bound, preempt := s.quickP, false
				if !e.Quick() {
					bound, preempt = s.thorP, s.thorPre
				}
				var execs, maxPts int64
				outcomes := map[string]bool{}
				st := choice.Explore(choice.Config{Bound: bound, Shard: e.Shard, NShard: e.NShard, ShardTop: true, Stop: e.Expired}, func(c *choice.Ctx) {
					results, res := c10Exec(s, chooserFor(c, preempt), false)
					execs++
					if int64(res.Points) > maxPts {
						maxPts = int64(res.Points)
					}
					outcomes[strings.Join(digests(results), ",")+res.Verdict] = true
					v := c10Judge(s, ref, seqOK, results, res)
					if v != "" {
						picks := c.Picks()
						ok := true
						for k := 0; k < 2 && ok; k++ {
							v2, _ := c10Check(s, preempt, ref, seqOK, picks)
							if v2 != v {
								r.HarnessError("schedule violation not reproducible in %s: %q vs %q", s.name, v, v2)
								ok = false
							}
						}
						if ok {
							r.Violate("schedule "+s.name+" :: "+stripDigitsAfter(v), fmt.Sprintf("%s [scenario %s, %d preemptions, schedule of %d picks]", v, s.name, c.Deviations(), len(picks)), c10Replay{s.name, picks, e.Seed, preempt})
						}
					}
				})
				r.Eval(execs)
				r.Transitions += execs
				r.Traces += execs
				for k := range outcomes {
					r.Distinct(s.name, k)
				}
				if n := int64(len(outcomes)); n > r.Counters["max_distinct_outcomes_one_scenario"] {
					r.Counters["max_distinct_outcomes_one_scenario"] = n
				}
				if st.Capped {
					r.Cap("deadline reached inside scenario %s (bound %d not completed)", s.name, bound)
				}
				if e.Shard == 0 {
					ops := []string{}
					for k, v := range res1.OpCounts {
						ops = append(ops, fmt.Sprintf("%s=%d", k, v))
					}
					sort.Strings(ops)
					info[s.name] = map[string]any{"bound": bound, "bound_kind": map[bool]string{true: "preemptions (switches at blocking points free)", false: "delays (every non-default scheduling decision)"}[preempt], "threads": res1.Threads, "scheduling_steps_default": res1.Steps, "choice_points_default": res1.Points, "sync_ops": strings.Join(ops, " ")}
					r.Sample(3, map[string]any{"scenario": s.name, "default_schedule_prefix": firstN(res1.Trace, 12)})
				}
				r.Count("schedules_"+strings.Fields(s.name)[0], execs)
			}
			if e.Shard == 0 {
				r.SetInfo("scenarios", info)
			}
		},
		Post: func(e *fw.Env, r *fw.Result) {
			r.States = int64(len(r.DistinctSet))
			if r.States == 0 {
				r.States = 1
			}
			c10RaceParent(e, r)
		},
		Replay: func(e *fw.Env, raw json.RawMessage) string {
			var rp c10Replay
			json.Unmarshal(raw, &rp)
			for _, s := range c10Scenarios(rp.Seed) {
				if s.name == rp.Scenario {
					s := s
					r1, res1 := c10Exec(&s, func(n, cost int, d string) int { return 0 }, false)
					if res1.Verdict != "" {
						return "default schedule: " + first(res1.Verdict)
					}
					var seqOK []map[string]bool
					if len(s.calls) > 1 {
						seqOK = c10Sequential(&s)
					}
					v, _ := c10Check(&s, rp.Preempt, digests(r1), seqOK, rp.Picks)
					return v
				}
			}
			return "scenario not found"
		},
	})
}

func firstN(s []string, n int) []string {
	if len(s) > n {
		return s[:n]
	}
	return s
}

// ---- free-running race pass (sampling, labelled as such)

// c10RacePass runs every scenario body unshimmed-in-effect (pass-through mode)
// repeatedly; the binary is built with -race by c10RaceParent.
func c10RacePass(e *fw.Env) {
	scens := c10Scenarios(e.Seed)
	vhook.ClearSites()
	vhook.SetDefault(0) // real GOMAXPROCS
	vsync.SetPoolPolicy(vsync.PoolReal, nil)
	for round := 0; round < 3; round++ {
		for si := range scens {
			s := &scens[si]
			done := make(chan struct{}, len(s.calls))
			for i := range s.calls {
				i := i
				go func() { s.calls[i](); done <- struct{}{} }()
			}
			for range s.calls {
				<-done
			}
		}
	}
	fmt.Println("racepass: done")
}

func c10RaceParent(e *fw.Env, r *fw.Result) {
	if os.Getenv("VERIF_NO_RACE") != "" {
		r.Skip("free-running -race pass disabled by VERIF_NO_RACE (development aid)")
		return
	}
	ov := filepath.Join(e.BuildDir, "overlay.json")
	bin := filepath.Join(e.BuildDir, "harness-race")
	cmd := exec.Command("go", "build", "-race", "-overlay", ov, "-o", bin, "./internal/zzverif/cmd/harness")
	cmd.Dir = e.Repo
	cmd.Env = append(os.Environ(), "GOFLAGS=-mod=mod", "GOPROXY=off", "GOWORK=off", "GOCACHE="+filepath.Join(e.Verif, ".build", "gocache"))
	if out, err := cmd.CombinedOutput(); err != nil {
		r.Skip("free-running -race pass: race build failed (%v): %s", err, tail(string(out), 300))
		return
	}
	races := 0
	for _, procs := range []string{"4", "16"} {
		c := exec.Command(bin, "C10", e.Tier, "-shard", "0/1", "-out", "/dev/null", "racepass")
		c.Env = append(os.Environ(), "GOMAXPROCS="+procs, "GORACE=halt_on_error=0")
		out, _ := c.CombinedOutput()
		n := strings.Count(string(out), "WARNING: DATA RACE")
		if n > 0 {
			races += n
			logp := filepath.Join(e.BuildDir, "race-"+procs+".log")
			os.WriteFile(logp, out, 0o644)
			// key by the first frames of the first report
			key := "data-race"
			lines := strings.Split(string(out), "\n")
			for i, l := range lines {
				if strings.Contains(l, "WARNING: DATA RACE") && i+2 < len(lines) {
					key = "data-race " + strings.TrimSpace(lines[i+2])
					break
				}
			}
			r.Violate(key, fmt.Sprintf("Go race detector reported %d data race(s) in the free-running pass at GOMAXPROCS=%s; log: %s", n, procs, logp), map[string]any{"racelog": logp})
		} else if !strings.Contains(string(out), "racepass: done") {
			r.Skip("free-running -race pass at GOMAXPROCS=%s did not finish: %s", procs, tail(string(out), 300))
		}
	}
	r.SetInfo("race_pass", map[string]any{"kind": "sampling (free-running, not part of the exhaustive claim)", "gomaxprocs": []int{4, 16}, "rounds": 3, "races_reported": races})
}
