package checks

import (
	"fmt"
	"image"
	"image/color"
	"math"

	webp "github.com/deepteams/webp"
	"github.com/deepteams/webp/internal/zzverif/choice"
	"github.com/deepteams/webp/internal/zzverif/fw"
	"github.com/deepteams/webp/internal/zzverif/imgs"
	"github.com/deepteams/webp/internal/zzverif/refdec"
)

// C07 — lossy encoding preserves alpha exactly by default (DESIGN.md 3/C07).

type c07Case struct {
	W, H    int
	Pattern string
	RGB     string
	AC, AF  int // AlphaCompression, AlphaFiltering
	AQ      int // AlphaQuality
	M       int
	Q       int
	Exact   bool
	Seed    int64
	Store   string // "": *image.NRGBA at the origin; else how the same pixels are stored (C19's placements, imgs.As types)
}

var c07Patterns = []string{"blocks", "checker", "onepx", "lv3", "lv5", "lv16", "lv17", "hgrad", "vgrad", "dgrad", "noise", "opaque1", "transparent", "opaque"}

func alphaPlane(w, h int, pat string, seed int64) []byte {
	a := make([]byte, w*h)
	s := uint64(seed)*2654435761 + 12345
	rnd := func() int {
		s ^= s << 13
		s ^= s >> 7
		s ^= s << 17
		return int(s >> 33)
	}
	lv := func(n int) byte {
		return byte((rnd() % n) * 255 / (n - 1))
	}
	for y := 0; y < h; y++ {
		for x := 0; x < w; x++ {
			var v byte
			switch pat {
			case "blocks":
				if (x/4+y/4)%2 == 0 {
					v = 255
				}
			case "checker":
				if (x+y)%2 == 0 {
					v = 255
				}
			case "onepx":
				v = 255
				if x == w/2 && y == h/2 {
					v = 0
				}
			case "lv3":
				v = lv(3)
			case "lv5":
				v = lv(5)
			case "lv16":
				v = lv(16)
			case "lv17":
				v = lv(17)
			case "hgrad":
				v = byte(x * 255 / maxi(1, w-1))
			case "vgrad":
				v = byte(y * 255 / maxi(1, h-1))
			case "dgrad":
				v = byte((x + y) * 255 / maxi(1, w+h-2))
			case "noise":
				v = byte(rnd())
			case "opaque1":
				v = 255
				if x == 0 && y == 0 {
					v = 254
				}
			case "transparent":
				v = 0
			case "opaque":
				v = 255
			case "glow": // curved 2-D falloff that saturates at 255 in the middle and rests at 0 in the corners
				dx, dy := float64(x)-float64(w)/2, float64(y)-float64(h)/2
				sg := float64(w+h) / 8
				g := 340 * math.Exp(-(dx*dx+dy*dy)/(2*sg*sg))
				if g > 255 {
					g = 255
				}
				if g < 3 {
					g = 0
				}
				v = byte(g)
			case "saddle": // x*y surface: the gradient predictor leaves 0..255 along its ridge
				q := x * y / 3
				if q > 255 {
					q = 255
				}
				v = byte(q)
			default:
				// "levels<N>": exactly N alpha levels 255, 254, ... (all present, noise layout)
				var n int
				if _, err := fmt.Sscanf(pat, "levels%d", &n); err == nil && n >= 1 && n <= 256 {
					if i := y*w + x; i < n {
						v = byte(255 - i)
					} else {
						v = byte(255 - rnd()%n)
					}
				}
			}
			a[y*w+x] = v
		}
	}
	return a
}

func maxi(a, b int) int {
	if a > b {
		return a
	}
	return b
}

func (cs *c07Case) source() (*image.NRGBA, []byte) {
	a := alphaPlane(cs.W, cs.H, cs.Pattern, cs.Seed+1)
	img := image.NewNRGBA(image.Rect(0, 0, cs.W, cs.H))
	s := uint64(cs.Seed)*77 + 99991
	for y := 0; y < cs.H; y++ {
		for x := 0; x < cs.W; x++ {
			c := color.NRGBA{200, 120, 40, a[y*cs.W+x]}
			if cs.RGB == "noise" {
				s ^= s << 13
				s ^= s >> 7
				s ^= s << 17
				c.R, c.G, c.B = byte(s>>8), byte(s>>16), byte(s>>24)
			}
			img.SetNRGBA(x, y, c)
		}
	}
	return img, a
}

func (cs *c07Case) key() string {
	return fmt.Sprintf("lossy-alpha %dx%d %s/%s ac=%d af=%d aq=%d m=%d q=%d exact=%v%s", cs.W, cs.H, cs.Pattern, cs.RGB, cs.AC, cs.AF, cs.AQ, cs.M, cs.Q, cs.Exact, map[bool]string{true: " store=" + cs.Store}[cs.Store != ""])
}

func alphaOf(img image.Image, w, h int) ([]byte, string) {
	b := img.Bounds()
	if b.Dx() != w || b.Dy() != h {
		return nil, fmt.Sprintf("decoded size %dx%d, want %dx%d", b.Dx(), b.Dy(), w, h)
	}
	out := make([]byte, w*h)
	switch m := img.(type) {
	case *image.NRGBA:
		for y := 0; y < h; y++ {
			for x := 0; x < w; x++ {
				out[y*w+x] = m.Pix[(y+b.Min.Y-m.Rect.Min.Y)*m.Stride+(x+b.Min.X-m.Rect.Min.X)*4+3]
			}
		}
	case *image.YCbCr:
		for i := range out {
			out[i] = 255
		}
	default:
		for y := 0; y < h; y++ {
			for x := 0; x < w; x++ {
				_, _, _, a := img.At(b.Min.X+x, b.Min.Y+y).RGBA()
				out[y*w+x] = byte(a >> 8)
			}
		}
	}
	return out, ""
}

func (cs *c07Case) run() string {
	src, srcA := cs.source()
	var img image.Image = src
	switch cs.Store {
	case "":
	case "RGBA", "NRGBA64", "generic":
		img = imgs.As(src, cs.Store) // premultiplied / 16-bit / opaque-to-the-fast-paths: the alpha channel is the same
	default:
		img, _ = place(src, cs.Store)
	}
	o := &webp.EncoderOptions{Quality: float32(cs.Q), Method: cs.M, Exact: cs.Exact,
		AlphaCompression: cs.AC, AlphaFiltering: cs.AF, AlphaQuality: cs.AQ,
		SNSStrength: -1, FilterStrength: -1, FilterType: -1, Segments: -1, Pass: -1, QMax: -1}
	data, err, p := encode(img, o)
	if p != "" {
		return "Encode panicked: " + first(p)
	}
	if err != nil {
		return "Encode rejected an accepted option set: " + err.Error()
	}
	got, err, p := decode(data)
	if p != "" {
		return "Decode panicked: " + first(p)
	}
	if err != nil {
		return "Decode rejected Encode's output: " + err.Error()
	}
	gotA, bad := alphaOf(got, cs.W, cs.H)
	if bad != "" {
		return bad
	}
	// the reference stack must see the same alpha plane
	_, rd, rerr := refdec.DecodeStill(data)
	if rerr != nil {
		return "independent decoder rejects the file: " + rerr.Error()
	}
	refA := rd.Alpha
	if refA == nil {
		refA = make([]byte, cs.W*cs.H)
		for i := range refA {
			refA[i] = 255
		}
		if rd.NRGBA != nil {
			refA, _ = alphaOf(rd.NRGBA, cs.W, cs.H)
		}
	}
	if d := cmpPlane(refA, gotA, cs.W); d != "" {
		return "this package's decoder and the reference ALPH decoder disagree on the alpha plane: " + d
	}
	aq := cs.AQ
	if aq < 0 {
		aq = 100
	}
	if aq >= 100 {
		if d := cmpPlane(srcA, gotA, cs.W); d != "" {
			return "decoded alpha differs from source alpha at AlphaQuality 100: " + d
		}
		return ""
	}
	levels := 2 + aq/5
	if aq > 70 {
		levels = 16 + (aq-70)*8
	}
	var seenS, seenG [256]bool
	for i := range srcA {
		seenS[srcA[i]] = true
		seenG[gotA[i]] = true
	}
	ng, minS, maxS, minG, maxG := 0, 255, 0, 255, 0
	for v := 0; v < 256; v++ {
		if seenG[v] {
			ng++
			minG = mini(minG, v)
			maxG = maxi(maxG, v)
		}
		if seenS[v] {
			minS = mini(minS, v)
			maxS = maxi(maxS, v)
		}
	}
	if ng > levels {
		return fmt.Sprintf("AlphaQuality %d: %d distinct decoded alpha values, documented maximum %d", aq, ng, levels)
	}
	if minG != minS || maxG != maxS {
		return fmt.Sprintf("AlphaQuality %d: source alpha range [%d,%d] not kept, decoded range [%d,%d]", aq, minS, maxS, minG, maxG)
	}
	return ""
}

func mini(a, b int) int {
	if a < b {
		return a
	}
	return b
}

func cmpPlane(want, got []byte, w int) string {
	if len(want) != len(got) {
		return fmt.Sprintf("plane sizes %d vs %d", len(want), len(got))
	}
	n, f := 0, -1
	for i := range want {
		if want[i] != got[i] {
			if f < 0 {
				f = i
			}
			n++
		}
	}
	if n == 0 {
		return ""
	}
	return fmt.Sprintf("%d samples differ, first at (%d,%d): got %d want %d", n, f%w, f/w, got[f], want[f])
}

func init() {
	registerCases[c07Case]("C07", "exploration",
		"full product of alpha-pattern class x size x RGB class x AlphaCompression{-1,0,1} x AlphaFiltering{-1,0,1,2} x AlphaQuality{0,1,50,70,71,99,100,-1} x Method 0..6 x Quality{20,90} x Exact (quick: reduced size/Method/Quality menus, still a full product), plus every number of distinct alpha levels 1..256 on a 20x20 noise layout x AlphaCompression{-1,1} x AlphaFiltering{-1,0} x Method{0,3,4,6}, plus curved alpha surfaces (glow, saddle) at 33x33 and 64x48 x AlphaCompression{-1,1} x AlphaFiltering{-1,1,2} x Method{0,3,4,6}, plus the storage part: 5 alpha patterns x 2 sizes x 10 ways of storing the same pixels (sub-image views, negative origin, padded stride, over-long Pix, generic wrappers, *image.RGBA, NRGBA64) x AlphaCompression{-1,0} x AlphaFiltering{-1,0,2} x Method{0,4,6} x Exact; non-trivial = distinct (pattern,size,options) tuple",
		[]string{"worker count pinned to 1, pools never reuse", "reference ALPH decoder written from the container specification on top of the vendored x/image vp8l decoder"},
		nil,
		func(e *fw.Env) func(c *choice.Ctx) caseI {
			sizes := [][2]int{{1, 1}, {7, 3}, {16, 16}, {17, 9}, {33, 33}}
			methods := []int{0, 1, 2, 3, 4, 5, 6}
			qs := []int{20, 90}
			if e.Quick() {
				sizes = [][2]int{{1, 1}, {7, 3}, {17, 9}}
				methods = []int{0, 3, 4, 6}
				qs = []int{75}
			}
			aqs := []int{100, 0, 1, 50, 70, 71, 99, -1}
			return func(c *choice.Ctx) caseI {
				cs := &c07Case{Seed: e.Seed}
				part := c.PickFree(4, "part")
				if part == 3 {
					// the same alpha plane stored differently: views into larger buffers, foreign
					// strides and origins, premultiplied and 16-bit pixels, an opaque wrapper
					s := [][2]int{{7, 3}, {17, 9}}[c.PickFree(2, "size")]
					cs.W, cs.H = s[0], s[1]
					cs.Pattern = []string{"blocks", "dgrad", "noise", "lv5", "onepx"}[c.PickFree(5, "pattern")]
					cs.RGB = "noise"
					cs.Store = []string{"sub35", "subodd", "negorigin", "stride", "longpix", "genericSub", "genericNeg", "RGBA", "NRGBA64", "generic"}[c.PickFree(10, "store")]
					cs.AC = []int{-1, 0}[c.PickFree(2, "ac")]
					cs.AF = []int{-1, 0, 2}[c.PickFree(3, "af")]
					cs.AQ = 100
					cs.M = []int{0, 4, 6}[c.PickFree(3, "method")]
					cs.Q = 75
					cs.Exact = c.PickFree(2, "exact") == 1
					return cs
				}
				if part == 2 {
					// curved alpha surfaces with more than 16 levels: the filter estimator picks the
					// gradient filter and the prediction leaves 0..255 in places
					s := [][2]int{{33, 33}, {64, 48}}[c.PickFree(2, "size")]
					cs.W, cs.H = s[0], s[1]
					cs.Pattern = []string{"glow", "saddle"}[c.PickFree(2, "pattern")]
					cs.RGB = "flat"
					cs.AC = []int{-1, 1}[c.PickFree(2, "ac")]
					cs.AF = []int{-1, 1, 2}[c.PickFree(3, "af")]
					cs.AQ = 100
					cs.M = []int{0, 3, 4, 6}[c.PickFree(4, "method")]
					cs.Q = 75
					return cs
				}
				if part == 1 {
					// alphabet-size sweep: every number of distinct alpha levels 1..256 (the number of
					// used symbols decides the shape of the code-length tables of the compressed plane)
					cs.W, cs.H = 20, 20
					cs.Pattern = fmt.Sprintf("levels%d", 1+c.PickFree(256, "levels"))
					cs.RGB = "flat"
					cs.AC = []int{-1, 1}[c.PickFree(2, "ac")]
					cs.AF = []int{-1, 0}[c.PickFree(2, "af")]
					cs.AQ = 100
					cs.M = []int{0, 3, 4, 6}[c.PickFree(4, "method")]
					cs.Q = 75
					return cs
				}
				s := sizes[c.PickFree(len(sizes), "size")]
				cs.W, cs.H = s[0], s[1]
				cs.Pattern = c07Patterns[c.PickFree(len(c07Patterns), "pattern")]
				cs.RGB = []string{"flat", "noise"}[c.PickFree(2, "rgb")]
				cs.AC = []int{-1, 0, 1}[c.PickFree(3, "ac")]
				cs.AF = []int{-1, 0, 1, 2}[c.PickFree(4, "af")]
				cs.AQ = aqs[c.PickFree(len(aqs), "aq")]
				cs.M = methods[c.PickFree(len(methods), "method")]
				cs.Q = qs[c.PickFree(len(qs), "q")]
				cs.Exact = c.PickFree(2, "exact") == 1
				return cs
			}
		})
}
