package checks

import (
	"bytes"
	"encoding/hex"
	"encoding/json"
	"fmt"
	"image"
	"time"

	webp "github.com/deepteams/webp"
	"github.com/deepteams/webp/internal/lossy"
	"github.com/deepteams/webp/internal/zzverif/arb"
	"github.com/deepteams/webp/internal/zzverif/choice"
	"github.com/deepteams/webp/internal/zzverif/fw"
	"github.com/deepteams/webp/internal/zzverif/refdec"
	"github.com/deepteams/webp/internal/zzverif/riffwalk"
	"github.com/deepteams/webp/internal/zzverif/vp8gen"
	"github.com/deepteams/webp/internal/zzverif/vp8lgen"
)

// C04 — VP8 (lossy) and ALPH decoding returns the samples the format defines,
// for every frame of a syntax-directed key-frame generator and every ALPH
// payload shape.

type c04Picker struct {
	c        *choice.Ctx
	restrict map[string][]int
	// free: menus that are enumerated as a full product in this pass (no deviation cost)
	free map[string][]int
}

func (p c04Picker) Pick(n int, label string) int {
	if r, ok := p.free[label]; ok {
		return r[p.c.PickFree(len(r), label)]
	}
	return p.c.Pick(n, label)
}
func (p c04Picker) Free(n int, label string) int {
	if r, ok := p.restrict[label]; ok {
		return r[p.c.PickFree(len(r), label)]
	}
	return p.c.PickFree(n, label)
}

var c04Stats struct{ invalid, disputed, disagree int64 }

type planes struct {
	w, h    int
	y, u, v []byte
}

func planesOf(m *image.YCbCr) planes {
	w, h := m.Rect.Dx(), m.Rect.Dy()
	cw, ch := (w+1)/2, (h+1)/2
	p := planes{w: w, h: h, y: make([]byte, 0, w*h), u: make([]byte, 0, cw*ch), v: make([]byte, 0, cw*ch)}
	for j := 0; j < h; j++ {
		o := m.YOffset(m.Rect.Min.X, m.Rect.Min.Y+j)
		p.y = append(p.y, m.Y[o:o+w]...)
	}
	for j := 0; j < ch; j++ {
		o := m.COffset(m.Rect.Min.X, m.Rect.Min.Y+2*j)
		p.u = append(p.u, m.Cb[o:o+cw]...)
		p.v = append(p.v, m.Cr[o:o+cw]...)
	}
	return p
}

func (a planes) diff(b planes, who string) string {
	if a.w != b.w || a.h != b.h {
		return fmt.Sprintf("%s: size %dx%d, specification %dx%d", who, b.w, b.h, a.w, a.h)
	}
	cw := (a.w + 1) / 2
	for i := range a.y {
		if a.y[i] != b.y[i] {
			return fmt.Sprintf("%s: Y(%d,%d) = %d, specification %d", who, i%a.w, i/a.w, b.y[i], a.y[i])
		}
	}
	for i := range a.u {
		if a.u[i] != b.u[i] {
			return fmt.Sprintf("%s: Cb(%d,%d) = %d, specification %d", who, i%cw, i/cw, b.u[i], a.u[i])
		}
		if a.v[i] != b.v[i] {
			return fmt.Sprintf("%s: Cr(%d,%d) = %d, specification %d", who, i%cw, i/cw, b.v[i], a.v[i])
		}
	}
	return ""
}

// c04Reference returns the specification's planes for a VP8 payload, or ok=false
// when the references reject it or disagree.
func c04Reference(stream, file []byte) (planes, bool) {
	ref, rerr := refdec.DecodeVP8(stream, false)
	aok, aw, ah, ay, au, av, aerr := arb.YUV(file)
	haveArb := aerr == nil
	if rerr != nil {
		if haveArb && aok {
			c04Stats.disputed++
		} else {
			c04Stats.invalid++
		}
		return planes{}, false
	}
	want := planesOf(ref)
	if haveArb {
		if !aok {
			c04Stats.disputed++
			return planes{}, false
		}
		if d := want.diff(planes{aw, ah, ay, au, av}, "libwebp"); d != "" {
			c04Stats.disagree++
			return planes{}, false
		}
	}
	return want, true
}

// c04JudgeFrame checks one VP8 key frame; "" = held.
func c04JudgeFrame(stream []byte) (verdict string) {
	defer func() {
		if r := recover(); r != nil {
			verdict = fmt.Sprintf("decoder panicked: %v", r)
		}
	}()
	file := riffwalk.RIFF(riffwalk.ChunkBytes("VP8 ", stream))
	want, ok := c04Reference(stream, file)
	if !ok {
		return ""
	}
	dec, w, h, y, ys, u, v, uvs, err := lossy.DecodeFrame(stream)
	if err != nil {
		return "lossy.DecodeFrame rejects a valid key frame: " + err.Error()
	}
	got := planes{w: w, h: h}
	cw, ch := (w+1)/2, (h+1)/2
	for j := 0; j < h; j++ {
		got.y = append(got.y, y[j*ys:j*ys+w]...)
	}
	for j := 0; j < ch; j++ {
		got.u = append(got.u, u[j*uvs:j*uvs+cw]...)
		got.v = append(got.v, v[j*uvs:j*uvs+cw]...)
	}
	lossy.ReleaseDecoder(dec)
	if d := want.diff(got, "lossy.DecodeFrame"); d != "" {
		return d
	}
	img, err := webp.Decode(bytes.NewReader(file))
	if err != nil {
		return "webp.Decode rejects a valid key frame: " + err.Error()
	}
	yc, isY := img.(*image.YCbCr)
	if !isY {
		return fmt.Sprintf("webp.Decode returned %T for a lossy file without alpha", img)
	}
	return want.diff(planesOf(yc), "webp.Decode")
}

// ---- ALPH

type c04Alpha struct {
	W, H    int
	Pattern string
	Method  int // 0 raw, 1 VP8L
	Filter  int
	Pre     int
	Rsv     int
	Trail   int   // extra bytes after the payload
	LL      []int `json:",omitempty"` // picks of the VP8L generator
	Seed    int64
}

func (a *c04Alpha) key() string {
	return fmt.Sprintf("alph %dx%d %s method=%d filter=%d pre=%d rsv=%d trail=%d ll=%v", a.W, a.H, a.Pattern, a.Method, a.Filter, a.Pre, a.Rsv, a.Trail, a.LL)
}

// forward prediction filter (inverse of refdec.Unfilter)
func alphaFilter(a []byte, w, h, f int) []byte {
	out := make([]byte, len(a))
	for y := 0; y < h; y++ {
		for x := 0; x < w; x++ {
			pred := 0
			switch {
			case f == 0:
			case x == 0 && y == 0:
			case y == 0:
				pred = int(a[x-1])
			case x == 0:
				pred = int(a[(y-1)*w])
			default:
				l, t, tl := int(a[y*w+x-1]), int(a[(y-1)*w+x]), int(a[(y-1)*w+x-1])
				switch f {
				case 1:
					pred = l
				case 2:
					pred = t
				case 3:
					pred = l + t - tl
					if pred < 0 {
						pred = 0
					}
					if pred > 255 {
						pred = 255
					}
				}
			}
			out[y*w+x] = byte(int(a[y*w+x]) - pred)
		}
	}
	return out
}

type llPicker struct {
	picks map[string]int
	w, h  int
}

func (p llPicker) Pick(n int, label string) int {
	if v, ok := p.picks[label]; ok && v < n {
		return v
	}
	return 0
}
func (p llPicker) Free(n int, label string) int { return p.Pick(n, label) }

var c04BaseFrames = map[[2]int][]byte{}

func c04BaseFrame(w, h int) []byte {
	k := [2]int{w, h}
	if b, ok := c04BaseFrames[k]; ok {
		return b
	}
	// a plain key frame of these dimensions: DC prediction, a few coefficients
	f := &vp8gen.Frame{W: w, H: h, SegProb: [3]int{-1, -1, -1}, QBase: 30, FilterLevel: 8}
	f.MBs = make([]vp8gen.MB, f.MBW()*f.MBH())
	for i := range f.MBs {
		f.MBs[i].Lv[24][0] = 20 - 7*(i%5)
		f.MBs[i].Lv[16][0] = 9 - 4*(i%4)
		f.MBs[i].Lv[21][1] = 3
	}
	b := f.Encode()
	c04BaseFrames[k] = b
	return b
}

func (a *c04Alpha) build() (file []byte, stream []byte, payload []byte, plane []byte) {
	plane = alphaPlane(a.W, a.H, a.Pattern, a.Seed+5)
	hdr := byte(a.Rsv<<6 | a.Pre<<4 | a.Filter<<2 | a.Method)
	if a.Method == 0 {
		payload = append([]byte{hdr}, alphaFilter(plane, a.W, a.H, a.Filter)...)
	} else {
		// VP8L-coded alpha: the generator decides the green values itself, so the
		// expected plane comes from the reference ALPH decoder, not from `plane`
		pk := map[string]int{}
		labels := []string{"main-cache", "main-copies", "main-code-shape", "content", "meta", "transforms"}
		for i, v := range a.LL {
			if i < len(labels) {
				pk[labels[i]] = v
			}
		}
		s, _ := vp8lgen.GenerateSized(llPicker{picks: pk}, a.Seed, a.W, a.H)
		payload = append([]byte{hdr}, s[5:]...)
		plane = nil
	}
	for i := 0; i < a.Trail; i++ {
		payload = append(payload, 0xAB)
	}
	stream = c04BaseFrame(a.W, a.H)
	file = riffwalk.RIFF(riffwalk.VP8X(riffwalk.FlagAlpha, a.W, a.H), riffwalk.ChunkBytes("ALPH", payload), riffwalk.ChunkBytes("VP8 ", stream))
	return
}

func (a *c04Alpha) run() (verdict string) {
	defer func() {
		if r := recover(); r != nil {
			verdict = fmt.Sprintf("decoder panicked: %v", r)
		}
	}()
	file, stream, payload, plane := a.build()
	refA, rerr := refdec.DecodeALPH(payload, a.W, a.H)
	aok, aw, ah, apix, aerr := arb.RGBA(file)
	if rerr != nil {
		if aerr == nil && aok {
			c04Stats.disputed++
		} else {
			c04Stats.invalid++
		}
		return ""
	}
	if plane != nil && !bytes.Equal(plane, refA) {
		return "harness: reference ALPH decoder does not invert the forward filter"
	}
	refYUV, yerr := refdec.DecodeVP8(stream, false)
	if yerr != nil {
		c04Stats.invalid++
		return ""
	}
	yo := refYUV.YOffset(0, 0)
	co := refYUV.COffset(0, 0)
	want := refdec.FancyNRGBA(a.W, a.H, refYUV.Y[yo:], refYUV.YStride, refYUV.Cb[co:], refYUV.Cr[co:], refYUV.CStride, refA)
	if aerr == nil {
		if !aok || aw != a.W || ah != a.H {
			c04Stats.disputed++
			return ""
		}
		if !bytes.Equal(apix, nrgbaBytes(want)) {
			c04Stats.disagree++
			return ""
		}
	}
	img, err := webp.Decode(bytes.NewReader(file))
	if err != nil {
		return "webp.Decode rejects a valid lossy+ALPH file: " + err.Error()
	}
	got, ok := img.(*image.NRGBA)
	if !ok {
		return fmt.Sprintf("webp.Decode returned %T for a file with an alpha plane", img)
	}
	if got.Rect.Dx() != a.W || got.Rect.Dy() != a.H {
		return fmt.Sprintf("decoded size %dx%d", got.Rect.Dx(), got.Rect.Dy())
	}
	gb, wb := nrgbaBytes(got), nrgbaBytes(want)
	for i := 0; i < len(gb); i += 4 {
		if gb[i+3] != wb[i+3] {
			return fmt.Sprintf("alpha(%d,%d) = %d, specification %d", i/4%a.W, i/4/a.W, gb[i+3], wb[i+3])
		}
	}
	for i := 0; i < len(gb); i++ {
		if gb[i] != wb[i] {
			return fmt.Sprintf("colour of pixel (%d,%d) = %v, reference fancy upsampling gives %v", i/4%a.W, i/4/a.W, gb[i/4*4:i/4*4+4], wb[i/4*4:i/4*4+4])
		}
	}
	da, err := lossy.DecodeAlpha(payload, a.W, a.H)
	if err != nil {
		return "lossy.DecodeAlpha rejects the payload webp.Decode accepts: " + err.Error()
	}
	if !bytes.Equal(da[:a.W*a.H], refA) {
		return "lossy.DecodeAlpha returns a different plane than webp.Decode"
	}
	return ""
}

type c04Replay struct {
	Hex   string    `json:",omitempty"`
	Desc  string    `json:",omitempty"`
	Alpha *c04Alpha `json:",omitempty"`
}

func c04ExploreFrames(e *fw.Env, r *fw.Result, bound int, restrict map[string][]int, pass string) {
	c04ExploreFramesFree(e, r, bound, restrict, nil, pass)
}

// c04FilterStress: the loop filters only do something interesting on strong edges, and a strong
// edge needs a high level AND large coefficients AND the right filter type at once - more
// deviations than the bounded passes allow.  This pass therefore enumerates the full product of
// filter level x type x sharpness x coefficient program x magnitude x quantiser x luma mode class
// on two multi-macroblock pictures (every clamp, threshold and high-edge-variance branch of both
// filters with saturating operands), everything else at its default.
var c04FilterStress = map[string][]int{
	"filter-level": {2, 3, 4}, "filter-simple": {0, 1}, "sharpness": {0, 1, 2},
	"coeffs": {8, 7, 3}, "magnitude": {6, 8, 9}, "qbase": {0, 3, 4}, "ymode": {0, 5, 4},
}

func c04ExploreFramesFree(e *fw.Env, r *fw.Result, bound int, restrict, free map[string][]int, pass string) {
	st := choice.Explore(choice.Config{Bound: bound, Shard: e.Shard, NShard: e.NShard, ShardTop: true, Stop: e.Expired}, func(c *choice.Ctx) {
		f, desc := vp8gen.Generate(c04Picker{c, restrict, free}, e.Seed)
		stream := f.Encode()
		r.Eval(1)
		r.DistinctHash(fw.Hash64(stream))
		r.Sample(2, map[string]any{"pass": pass, "frame": desc, "bytes": len(stream)})
		done := e.Guard(r, 90*time.Second, func() (string, string, any) {
			return "vp8 hang :: " + desc, "decoding used more than 90 CPU-seconds without finishing (hang) [frame: " + desc + "]", c04Replay{Hex: hex.EncodeToString(stream), Desc: desc}
		})
		v := c04JudgeFrame(stream)
		done()
		if v != "" {
			if r.Confirm(2, v, func() string { return c04JudgeFrame(stream) }) {
				r.Violate("vp8 "+stripDigitsAfter(first(v))+" :: "+desc, v+" [frame: "+desc+"]", c04Replay{Hex: hex.EncodeToString(stream), Desc: desc})
			}
		}
	})
	if st.Capped {
		r.Cap("deadline reached in pass %s", pass)
	}
	if e.Shard == 0 {
		r.Count("leaves_"+pass, st.Runs)
	}
}

func init() {
	fw.Register(&fw.Check{
		ID: "C04", Level: "exploration", Shards: shards16,
		Rule:   "syntax-directed VP8 key-frame generator (own boolean entropy encoder; RFC 6386 header, mode and token trees) driven by the explorer: 8 dimensions (1-3 macroblocks per side, cropped) x at most 2 deviations (3 on the 3x2-macroblock picture; thorough: 3 everywhere, 4 on that picture) from menus for quantiser index and each of the five deltas, segments (map / delta / absolute / data without map), loop filter level, type, sharpness and mode/ref deltas, 1-8 token partitions, 16x16, 4x4 (each of the ten sub-modes, cycling) and chroma modes, eleven coefficient programs x eleven magnitudes up to 2114 x sign, skip-flag usage, coefficient probability updates, colour-space / clamp / version bits; plus a filter-stress pass (full product of filter level {8,32,63} x simple/normal x sharpness {0,3,7} x 3 coefficient programs x magnitudes {11,35,67} x quantiser {20,63,120} x 3 luma mode classes on 32x32 and 33x17; thorough: with one further deviation); plus ALPH payloads: sizes x 8 alpha patterns x {raw, VP8L from the lossless generator} x 4 filters x pre-processing and reserved bits x trailing bytes; oracle: vendored x/image vp8 decoder + reference ALPH decoder + reference fancy upsampler, libwebp arbitrating; distinct = distinct stream bytes / ALPH case",
		Assume: []string{"a frame the references reject or disagree on is dropped and counted, never a violation", "coefficient levels are limited so that level x quantiser stays inside 16 bits (wrap-around is not defined by the format)"},
		Run: func(e *fw.Env, r *fw.Result) {
			pin()
			c04ExploreFrames(e, r, 2, nil, "frames-2dev")
			if e.Quick() {
				c04ExploreFrames(e, r, 3, map[string][]int{"dims": {4}}, "frames-3dev")
				c04ExploreFramesFree(e, r, 0, map[string][]int{"dims": {5, 4}}, c04FilterStress, "filter-stress")
			} else {
				// one further deviation, but none that raises a quantiser beyond the pass's own menu: with
				// level 67 a quantiser delta of +15 (or a segment quantiser) takes the dequantised
				// coefficients into the range of the recorded 16-bit IDCT finding (DESIGN 9.2), below
				// which C04 stays by design
				fs := map[string][]int{"segments": {0}}
				for k, v := range c04FilterStress {
					fs[k] = v
				}
				for _, dn := range []string{"y1dc", "y2dc", "y2ac", "uvdc", "uvac"} {
					fs["qdelta-"+dn] = []int{0}
				}
				c04ExploreFramesFree(e, r, 1, map[string][]int{"dims": {5, 4}}, fs, "filter-stress-1dev")
				c04ExploreFrames(e, r, 3, nil, "frames-3dev")
				c04ExploreFrames(e, r, 4, map[string][]int{"dims": {4}}, "frames-4dev")
			}
			// ALPH
			var cases []*c04Alpha
			sizes := [][2]int{{1, 1}, {7, 3}, {16, 16}, {17, 9}, {33, 5}}
			pats := []string{"blocks", "checker", "lv5", "hgrad", "vgrad", "dgrad", "noise", "transparent"}
			for _, s := range sizes {
				for _, p := range pats {
					for f := 0; f < 4; f++ {
						for pre := 0; pre < 4; pre++ {
							cases = append(cases, &c04Alpha{W: s[0], H: s[1], Pattern: p, Method: 0, Filter: f, Pre: pre, Seed: e.Seed})
						}
						cases = append(cases, &c04Alpha{W: s[0], H: s[1], Pattern: p, Method: 0, Filter: f, Rsv: 3, Seed: e.Seed},
							&c04Alpha{W: s[0], H: s[1], Pattern: p, Method: 0, Filter: f, Trail: 3, Seed: e.Seed})
					}
				}
				// VP8L-coded alpha: generator feature menus
				for f := 0; f < 4; f++ {
					for cache := 0; cache < 7; cache += 2 {
						for copies := 0; copies < 8; copies++ {
							for shape := 0; shape < 5; shape += 2 {
								for content := 0; content < 4; content++ {
									cases = append(cases, &c04Alpha{W: s[0], H: s[1], Pattern: "vp8l", Method: 1, Filter: f, LL: []int{cache, copies, shape, content}, Seed: e.Seed})
								}
							}
						}
					}
					// with transforms and a meta prefix image
					for _, tr := range []int{1, 5, 17, 40} {
						cases = append(cases, &c04Alpha{W: s[0], H: s[1], Pattern: "vp8l", Method: 1, Filter: f, LL: []int{1, 3, 0, 1, 2, tr}, Seed: e.Seed})
					}
				}
			}
			for i, a := range cases {
				if !e.Mine(i) {
					continue
				}
				if e.Expired() {
					r.Cap("deadline reached inside the ALPH cases")
					break
				}
				r.Eval(1)
				r.Distinct(a.key())
				if i%997 == 0 {
					r.Sample(5, a)
				}
				a := a
				done := e.Guard(r, 90*time.Second, func() (string, string, any) {
					return "alph hang :: " + a.key(), "decoding used more than 90 CPU-seconds without finishing (hang) [" + a.key() + "]", c04Replay{Alpha: a}
				})
				v := a.run()
				done()
				if v != "" {
					if r.Confirm(2, v, a.run) {
						r.Violate(a.key(), v+" ["+a.key()+"]", c04Replay{Alpha: a})
					}
				}
			}
			r.Count("alph_cases", int64(len(cases))/int64(e.NShard))
			r.Count("generator_invalid", c04Stats.invalid)
			r.Count("validity_disputed_dropped", c04Stats.disputed)
			r.Count("oracle_disagreement_dropped", c04Stats.disagree)
			r.SetInfo("libwebp_arbiter_available", arb.Available())
		},
		Post: func(e *fw.Env, r *fw.Result) {
			bad := r.Counters["generator_invalid"] + r.Counters["validity_disputed_dropped"] + r.Counters["oracle_disagreement_dropped"]
			if bad*10 > r.Evaluations {
				r.HarnessError("more than 10%% of the generated cases were dropped (invalid / disputed / references disagree): generator or reference fault")
			}
		},
		Replay: func(e *fw.Env, raw json.RawMessage) string {
			pin()
			var rp c04Replay
			json.Unmarshal(raw, &rp)
			if rp.Alpha != nil {
				return rp.Alpha.run()
			}
			b, _ := hex.DecodeString(rp.Hex)
			return c04JudgeFrame(b)
		},
	})
}
