//go:build !js

package checks

import (
	"bufio"
	"bytes"
	"encoding/binary"
	"encoding/hex"
	"encoding/json"
	"fmt"
	"image"
	"os"
	"os/exec"
	"path/filepath"
	"runtime"
	"strings"
	"sync/atomic"
	"syscall"
	"time"

	webp "github.com/deepteams/webp"
	"github.com/deepteams/webp/animation"
	"github.com/deepteams/webp/internal/zzverif/fw"
	"github.com/deepteams/webp/internal/zzverif/riffwalk"
	"github.com/deepteams/webp/internal/zzverif/vhook"
	"github.com/deepteams/webp/mux"
)

// C05 — no input bytes can crash, hang or exhaust any decoding entry point
// (fault enumeration over seed files; isolated worker processes).

type c05Input struct {
	ID   string
	Data []byte
}

// lenientPixels sums every picture/canvas area that any header in b declares
// (scanning chunk-like structures without validation).  Areas above the
// documented 2^30 cap contribute nothing: such inputs must be rejected.
// It also returns the largest single declared area.
func lenientPixels(b []byte) (sum uint64, largest uint64) {
	add := func(w, h uint64) {
		a := w * h
		if a > largest {
			largest = a
		}
		if a <= 1<<30 {
			sum += a
		}
	}
	var walk func(p []byte, depth int)
	walk = func(p []byte, depth int) {
		off := 0
		for off+8 <= len(p) {
			cc := string(p[off : off+4])
			sz := int(binary.LittleEndian.Uint32(p[off+4:]))
			end := off + 8 + sz
			if sz < 0 || end > len(p) || end < off {
				end = len(p)
			}
			pl := p[off+8 : end]
			switch cc {
			case "VP8X":
				if len(pl) >= 10 {
					add(uint64(le24b(pl[4:]))+1, uint64(le24b(pl[7:]))+1)
				}
			case "ANMF":
				if len(pl) >= 16 {
					add(uint64(le24b(pl[6:]))+1, uint64(le24b(pl[9:]))+1)
					if depth < 2 {
						walk(pl[16:], depth+1)
					}
				}
			case "VP8 ":
				if len(pl) >= 10 {
					add(uint64(binary.LittleEndian.Uint16(pl[6:])&0x3fff), uint64(binary.LittleEndian.Uint16(pl[8:])&0x3fff))
				}
			case "VP8L":
				if len(pl) >= 5 {
					bits := binary.LittleEndian.Uint32(pl[1:])
					add(uint64(bits&0x3fff)+1, uint64(bits>>14&0x3fff)+1)
				}
			}
			if sz&1 == 1 {
				end++
			}
			if end <= off {
				break
			}
			off = end
		}
	}
	if len(b) >= 12 {
		walk(b[12:], 0)
	}
	return
}

func le24b(b []byte) int { return int(b[0]) | int(b[1])<<8 | int(b[2])<<16 }

// field is a little-endian size/dimension field inside a seed file.
type field struct {
	off, width int // width in bytes (2,3,4)
	name       string
}

func fieldsOf(data []byte) []field {
	var out []field
	f, err := riffwalk.Parse(data)
	if err != nil {
		return nil
	}
	out = append(out, field{4, 4, "riff-size"})
	var addChunk func(c riffwalk.Chunk)
	addBitstream := func(off int, cc string, pl []byte) {
		if cc == "VP8 " && len(pl) >= 10 {
			out = append(out, field{off, 3, "vp8-tag"}, field{off + 6, 2, "vp8-width"}, field{off + 8, 2, "vp8-height"})
			if v := riffwalk.ParseVP8(pl); v.Err == "" {
				p := off + 10 + v.Part0Len
				for i := 0; i < v.NumPartitions-1; i++ {
					out = append(out, field{p + 3*i, 3, fmt.Sprintf("vp8-partsize%d", i)})
				}
			}
		}
		if cc == "VP8L" && len(pl) >= 5 {
			out = append(out, field{off + 1, 4, "vp8l-dims"})
		}
	}
	addChunk = func(c riffwalk.Chunk) {
		out = append(out, field{c.Off + 4, 4, strings.TrimSpace(c.FourCC) + "-size"})
		p := c.Off + 8
		switch c.FourCC {
		case "VP8X":
			if c.Size >= 10 {
				out = append(out, field{p + 4, 3, "canvas-w"}, field{p + 7, 3, "canvas-h"})
			}
		case "ANIM":
			if c.Size >= 6 {
				out = append(out, field{p + 4, 2, "loop"})
			}
		case "ANMF":
			if c.Size >= 16 {
				for i, n := range []string{"x", "y", "w", "h", "dur"} {
					out = append(out, field{p + 3*i, 3, "anmf-" + n})
				}
			}
		case "VP8 ", "VP8L":
			addBitstream(p, c.FourCC, c.Data)
		}
	}
	for _, c := range f.Chunks {
		addChunk(c)
	}
	for i := range f.Frames {
		for _, c := range f.Frames[i].Chunks {
			addChunk(c)
		}
	}
	return out
}

func putField(b []byte, f field, v uint64) {
	for i := 0; i < f.width && f.off+i < len(b); i++ {
		b[f.off+i] = byte(v >> (8 * i))
	}
}
func getField(b []byte, f field) uint64 {
	var v uint64
	for i := 0; i < f.width && f.off+i < len(b); i++ {
		v |= uint64(b[f.off+i]) << (8 * i)
	}
	return v
}

var fieldAlphabet = func(truth uint64, width int) []uint64 {
	mask := uint64(1)<<(8*width) - 1
	vals := []uint64{0, 1, 2, 3, 4, 7, 8, 9, truth - 1, truth + 1, 1 << 14, 1<<24 - 1, 0x7fffffff, 0xfffffff6, 0xffffffff}
	seen := map[uint64]bool{truth: true}
	var out []uint64
	for _, v := range vals {
		v &= mask
		if !seen[v] {
			seen[v] = true
			out = append(out, v)
		}
	}
	return out
}

func byteAlphabet(b byte) []byte {
	vals := []byte{0x00, 0x01, 0x7f, 0x80, 0xff, b ^ 1, b ^ 0x80, b + 1, b - 1}
	seen := map[byte]bool{b: true}
	var out []byte
	for _, v := range vals {
		if !seen[v] {
			seen[v] = true
			out = append(out, v)
		}
	}
	return out
}

var knownFourCC = []string{"VP8 ", "VP8L", "VP8X", "ALPH", "ANIM", "ANMF", "ICCP", "EXIF", "XMP ", "JUNK"}

// c05Enumerate calls yield for every input of the enumeration, in a fixed order.
func c05Enumerate(e *fw.Env, yield func(in c05Input)) {
	stills := stillCorpus(e.Seed, e.Repo)
	anims := animCorpus(e.Seed)
	seeds := append(append([]namedFile{}, stills...), anims...)
	have := map[string]bool{}
	for _, f := range seeds {
		have[f.Name] = true
	}
	for _, f := range genCorpus(e.Seed) { // valid VP8L streams no encoder emits
		if !have[f.Name] {
			seeds = append(seeds, f)
		}
	}
	mut := func(name string, data []byte) { yield(c05Input{name, data}) }
	// (f) skeleton strings
	sizes := []uint32{0, 1, 2, 3, 4, 7, 8, 9, 10, 12, 16, 1 << 14, 0x7fffffff, 0xfffffff6, 0xffffffff}
	mut("skeleton/empty", nil)
	for n := 1; n <= 12; n++ {
		mut(fmt.Sprintf("skeleton/riff-prefix-%d", n), []byte("RIFF\x04\x00\x00\x00WEBP")[:n])
	}
	for _, rs := range sizes {
		for _, cc := range []string{"VP8 ", "VP8L", "VP8X", "ALPH", "ANMF", "ANIM"} {
			for _, cs := range sizes {
				for _, fill := range []int{0, 1, 8} {
					b := make([]byte, 0, 28)
					b = append(b, "RIFF"...)
					b = binary.LittleEndian.AppendUint32(b, rs)
					b = append(b, "WEBP"...)
					b = append(b, cc...)
					b = binary.LittleEndian.AppendUint32(b, cs)
					for i := 0; i < fill; i++ {
						b = append(b, byte(0x2f+i))
					}
					mut(fmt.Sprintf("skeleton/riff=%#x/%s=%#x/fill%d", rs, strings.TrimSpace(cc), cs, fill), b)
				}
			}
		}
	}
	for _, s := range seeds {
		d := s.Data
		mut(s.Name+"/intact", d)
		// (a) every prefix
		for n := 0; n < len(d); n++ {
			mut(fmt.Sprintf("%s/cut@%d", s.Name, n), d[:n:n])
		}
		// (b) every byte x boundary alphabet
		for i := 0; i < len(d); i++ {
			for _, v := range byteAlphabet(d[i]) {
				m := append([]byte(nil), d...)
				m[i] = v
				mut(fmt.Sprintf("%s/byte@%d=%#02x", s.Name, i, v), m)
			}
		}
		// (c) every recognised size field x boundary alphabet
		for _, f := range fieldsOf(d) {
			truth := getField(d, f)
			for _, v := range fieldAlphabet(truth, f.width) {
				m := append([]byte(nil), d...)
				putField(m, f, v)
				mut(fmt.Sprintf("%s/field:%s@%d=%#x", s.Name, f.name, f.off, v), m)
			}
		}
		// (d) chunk-level edits
		if pf, err := riffwalk.Parse(d); err == nil {
			cs := pf.Chunks
			raw := func(c riffwalk.Chunk) []byte {
				end := c.Off + 8 + c.Size
				if c.Size&1 == 1 && end < len(d) {
					end++
				}
				return d[c.Off:end]
			}
			build := func(list [][]byte) []byte {
				out := append([]byte(nil), d[:12]...)
				for _, c := range list {
					out = append(out, c...)
				}
				binary.LittleEndian.PutUint32(out[4:], uint32(len(out)-8))
				return out
			}
			var parts [][]byte
			for _, c := range cs {
				parts = append(parts, raw(c))
			}
			for i := range parts {
				var del, dup, sw [][]byte
				for j := range parts {
					if j != i {
						del = append(del, parts[j])
					}
					dup = append(dup, parts[j])
					if j == i {
						dup = append(dup, parts[j])
					}
				}
				mut(fmt.Sprintf("%s/chunk%d-deleted", s.Name, i), build(del))
				mut(fmt.Sprintf("%s/chunk%d-duplicated", s.Name, i), build(dup))
				if i+1 < len(parts) {
					sw = append(sw, parts...)
					sw[i], sw[i+1] = sw[i+1], sw[i]
					mut(fmt.Sprintf("%s/chunk%d-swapped", s.Name, i), build(sw))
				}
				for _, cc := range knownFourCC {
					if cc != cs[i].FourCC {
						m := append([]byte(nil), d...)
						copy(m[cs[i].Off:], cc)
						mut(fmt.Sprintf("%s/chunk%d-retag-%s", s.Name, i, strings.TrimSpace(cc)), m)
					}
				}
			}
		}
	}
	// (e) all pairs of deviations inside the header region of one file per layout class
	pairSeeds := []string{"lossy-16x16-part1", "lossless-c4", "lossyalpha-ac1-af1", "lossy-meta-all-odd", "anim-lossless-2", "anim-hand-blend-dispose", "anim-hand-lossy-alpha"}
	region := 40
	if !e.Quick() {
		region = 64
	}
	for _, s := range seeds {
		use := false
		for _, n := range pairSeeds {
			if s.Name == n {
				use = true
			}
		}
		if !use {
			continue
		}
		d := s.Data
		lim := region
		if lim > len(d) {
			lim = len(d)
		}
		alt := func(b byte) []byte { return []byte{0x00, 0xff, b ^ 1} }
		for i := 0; i < lim; i++ {
			for j := i + 1; j < lim; j++ {
				for _, vi := range alt(d[i]) {
					for _, vj := range alt(d[j]) {
						if vi == d[i] || vj == d[j] {
							continue
						}
						m := append([]byte(nil), d...)
						m[i], m[j] = vi, vj
						mut(fmt.Sprintf("%s/pair@%d=%#02x,@%d=%#02x", s.Name, i, vi, j, vj), m)
					}
				}
			}
		}
	}
}

// ---- executing one input

func checkImage(what string, img image.Image) string {
	if img == nil {
		return what + ": nil image with nil error"
	}
	b := img.Bounds()
	w, h := b.Dx(), b.Dy()
	if w <= 0 || h <= 0 {
		return fmt.Sprintf("%s: image with bounds %v", what, b)
	}
	switch m := img.(type) {
	case *image.NRGBA:
		if m.Stride < 4*w || len(m.Pix) < (h-1)*m.Stride+4*w {
			return fmt.Sprintf("%s: NRGBA %dx%d stride %d has only %d bytes", what, w, h, m.Stride, len(m.Pix))
		}
	case *image.YCbCr:
		cw, ch := (w+1)/2, (h+1)/2
		if len(m.Y) < (h-1)*m.YStride+w || len(m.Cb) < (ch-1)*m.CStride+cw || len(m.Cr) < (ch-1)*m.CStride+cw {
			return fmt.Sprintf("%s: YCbCr %dx%d planes too small (%d/%d/%d)", what, w, h, len(m.Y), len(m.Cb), len(m.Cr))
		}
	}
	return ""
}

// c05Run executes every entry point on one input; "" = held.
func c05Run(data []byte) (verdict string) {
	step := "start"
	defer func() {
		if r := recover(); r != nil {
			buf := make([]byte, 1500)
			buf = buf[:runtime.Stack(buf, false)]
			verdict = fmt.Sprintf("panic in %s: %v | %s", step, r, strings.ReplaceAll(string(buf), "\n", " / "))
		}
	}()
	step = "webp.Decode"
	if img, err := webp.Decode(bytes.NewReader(data)); err == nil {
		if d := checkImage(step, img); d != "" {
			return d
		}
	}
	step = "webp.DecodeConfig"
	if cfg, err := webp.DecodeConfig(bytes.NewReader(data)); err == nil {
		if cfg.Width <= 0 || cfg.Height <= 0 || cfg.ColorModel == nil {
			return fmt.Sprintf("DecodeConfig returned %dx%d model %v with nil error", cfg.Width, cfg.Height, cfg.ColorModel)
		}
	}
	step = "webp.GetFeatures"
	if ft, err := webp.GetFeatures(bytes.NewReader(data)); err == nil {
		if ft == nil || ft.Width <= 0 || ft.Height <= 0 {
			return fmt.Sprintf("GetFeatures returned %+v with nil error", ft)
		}
	}
	step = "image.Decode"
	if img, _, err := image.Decode(bytes.NewReader(data)); err == nil {
		if d := checkImage(step, img); d != "" {
			return d
		}
	}
	step = "image.DecodeConfig"
	image.DecodeConfig(bytes.NewReader(data))
	step = "mux.NewDemuxer"
	if dmx, err := mux.NewDemuxer(data); err == nil {
		step = "Demuxer accessors"
		n := dmx.NumFrames()
		dmx.GetFeatures()
		dmx.LoopCount()
		dmx.BackgroundColor()
		for i := -1; i <= n; i++ {
			fi, err := dmx.Frame(i)
			if err == nil && fi == nil {
				return "Demuxer.Frame returned nil, nil"
			}
		}
		it := dmx.NewFrameIterator()
		for k := 0; it.HasNext() && k <= n+1; k++ {
			it.Next()
		}
		for _, id := range []mux.ChunkID{mux.FourCCICCP, mux.FourCCEXIF, mux.FourCCXMP, mux.FourCCANIM, mux.FourCCVP8X, mux.FourCCALPH, 0x4b4e554a} {
			dmx.GetChunk(id)
		}
	}
	for pass := 0; pass < 2; pass++ {
		step = "animation.DecodeBytes"
		an, err := animation.DecodeBytes(data)
		if pass == 1 {
			// the reader entry point (reads everything, then parses)
			step = "animation.Decode"
			an2, err2 := animation.Decode(noLen{bytes.NewReader(data)})
			if (err == nil) != (err2 == nil) {
				return fmt.Sprintf("animation.Decode(reader) and animation.DecodeBytes disagree on the same bytes: %v vs %v", err2, err)
			}
			an = an2
		}
		if err != nil {
			break
		}
		if pass == 0 {
			step = "Animation.DecodeFrames"
			err = an.DecodeFrames()
		} else {
			step = "Animation.DecodeFramesParallel"
			err = an.DecodeFramesParallel()
		}
		an.TotalDuration()
		if err != nil {
			continue
		}
		step = "NewAnimDecoder"
		ad, err := animation.NewAnimDecoder(an)
		if err != nil {
			continue
		}
		for round := 0; round < 2; round++ {
			step = "AnimDecoder.NextFrame"
			for k := 0; ad.HasNext() && k < len(an.Frames)+2; k++ {
				snap, _, err := ad.NextFrame()
				if err != nil {
					break
				}
				if d := checkImage(step, snap); d != "" {
					return d
				}
				if snap.Rect.Dx() != an.CanvasWidth || snap.Rect.Dy() != an.CanvasHeight {
					return fmt.Sprintf("NextFrame snapshot %v for canvas %dx%d", snap.Rect, an.CanvasWidth, an.CanvasHeight)
				}
			}
			step = "AnimDecoder.Reset"
			ad.Reset()
		}
	}
	return ""
}

// ---- worker / supervisor

type c05Event struct {
	Kind string `json:"kind"` // violation | skipped | done
	ID   string `json:"id,omitempty"`
	Desc string `json:"desc,omitempty"`
	Hex  string `json:"hex,omitempty"`
	// counters at "done"
	Evals, Skipped, MaxAlloc int64
	DistinctIDs              int64
	Sample                   []string
}

func cpuSeconds() float64 {
	var ru syscall.Rusage
	syscall.Getrusage(syscall.RUSAGE_SELF, &ru)
	return float64(ru.Utime.Sec) + float64(ru.Utime.Usec)/1e6 + float64(ru.Stime.Sec) + float64(ru.Stime.Usec)/1e6
}

// c05Worker runs inputs [from, ...) of this shard and appends events to out.
func c05Worker(e *fw.Env, from int64, outPath, progPath string) {
	vhook.ClearSites()
	vhook.SetDefault(2) // exercise the parallel decode paths as well
	pinPoolsOnly()
	// address-space backstop
	lim := syscall.Rlimit{Cur: 8 << 30, Max: 8 << 30}
	syscall.Setrlimit(syscall.RLIMIT_AS, &lim)
	out, err := os.OpenFile(outPath, os.O_APPEND|os.O_CREATE|os.O_WRONLY, 0o644)
	if err != nil {
		panic(err)
	}
	w := bufio.NewWriter(out)
	emit := func(ev c05Event) {
		b, _ := json.Marshal(ev)
		w.Write(b)
		w.WriteByte('\n')
		w.Flush()
	}
	prog, _ := os.OpenFile(progPath, os.O_CREATE|os.O_WRONLY, 0o644)
	var curIdx atomic.Int64
	var curStartCPU atomic.Uint64 // micro-seconds
	var curStartWall atomic.Int64
	curIdx.Store(-1)
	var curPixels atomic.Uint64 // pixels the input declares (lenient header reading)
	// watchdog: CPU blow-up or deadlock on one input
	var curID atomic.Value
	var curData atomic.Value
	curID.Store("")
	curData.Store([]byte(nil))
	go func() {
		for {
			time.Sleep(500 * time.Millisecond)
			if curIdx.Load() < 0 {
				continue
			}
			cpu := cpuSeconds() - float64(curStartCPU.Load())/1e6
			wall := time.Since(time.Unix(0, curStartWall.Load())).Seconds()
			var why string
			// the property allows time proportional to the declared picture/canvas size: the cap is
			// 60 s plus 4 us per declared pixel (every entry point, twice, incl. page-fault cost
			// when 16 workers run side by side: measured 10 s alone, 65 s under load for 67 Mpx)
			if cpu > 60+4e-6*float64(curPixels.Load()) {
				why = fmt.Sprintf("more than %.0f CPU-seconds on one input (hang or blow-up)", cpu)
			} else if wall > 600 && cpu < 2 {
				why = fmt.Sprintf("no progress for %.0f s with %.1f CPU-seconds used (deadlock)", wall, cpu)
			}
			if why != "" {
				emit(c05Event{Kind: "violation", ID: curID.Load().(string), Desc: why, Hex: hex.EncodeToString(curData.Load().([]byte))})
				os.Exit(3)
			}
		}
	}()
	pixCap := uint64(1) << 22
	if !e.Quick() {
		pixCap = 1 << 26
	}
	var evals, skipped, maxAlloc, idx int64
	var samples []string
	var ms runtime.MemStats
	c05Enumerate(e, func(in c05Input) {
		k := idx
		idx++
		if !e.Mine(int(k)) || k < from {
			return
		}
		if e.Expired() {
			return
		}
		// announce before touching the input
		var pb [8]byte
		binary.LittleEndian.PutUint64(pb[:], uint64(k))
		prog.WriteAt(pb[:], 0)
		sum, largest := lenientPixels(in.Data)
		if sum > pixCap || (largest > pixCap && largest <= 1<<30) {
			skipped++
			return
		}
		curID.Store(in.ID)
		curData.Store(in.Data)
		curPixels.Store(sum)
		curStartCPU.Store(uint64(cpuSeconds() * 1e6))
		curStartWall.Store(time.Now().UnixNano())
		curIdx.Store(k)
		runtime.ReadMemStats(&ms)
		before := ms.TotalAlloc
		verdict := c05Run(in.Data)
		runtime.ReadMemStats(&ms)
		curIdx.Store(-1)
		alloc := int64(ms.TotalAlloc - before)
		if alloc > maxAlloc {
			maxAlloc = alloc
		}
		evals++
		if len(samples) < 3 && k%97 == 0 {
			samples = append(samples, in.ID)
		}
		bound := 12*(64*int64(len(in.Data))+64*int64(sum)) + 64<<20
		if verdict == "" && alloc > bound {
			verdict = fmt.Sprintf("allocated %d bytes for an input of %d bytes declaring %d pixels (bound %d)", alloc, len(in.Data), sum, bound)
		}
		if verdict != "" {
			emit(c05Event{Kind: "violation", ID: in.ID, Desc: verdict, Hex: hex.EncodeToString(in.Data)})
		}
	})
	if e.Expired() {
		emit(c05Event{Kind: "capped"})
	}
	emit(c05Event{Kind: "done", Evals: evals, Skipped: skipped, MaxAlloc: maxAlloc, DistinctIDs: evals, Sample: samples})
	binary.LittleEndian.PutUint64(make([]byte, 8), 0)
	os.Exit(0)
}

func pinPoolsOnly() {
	// pools: most-recent reuse, the realistic steady state for a decoder fed hostile inputs
	setPoolsMostRecent()
}

// c05Key classifies a verdict so that one root cause maps to one key.
func c05Key(id, desc string) string {
	d := desc
	if i := strings.Index(d, " | "); i > 0 {
		// panic: keep message + first repo frame
		msg := d[:i]
		rest := d[i+3:]
		frame := ""
		for _, part := range strings.Split(rest, " / ") {
			p := strings.TrimSpace(part)
			if strings.Contains(p, "deepteams/webp") && !strings.Contains(p, "zzverif") && strings.Contains(p, "(") {
				frame = p
				if j := strings.Index(frame, "("); j > 0 {
					frame = frame[:j]
				}
				break
			}
		}
		msg = strings.TrimSpace(stripDigitsAfter(msg))
		return "hostile-input " + msg + " at " + frame
	}
	return "hostile-input " + stripDigitsAfter(d) + " :: " + strings.SplitN(id, "/", 2)[0]
}

func init() {
	fw.Register(&fw.Check{
		ID: "C05", Level: "fault_enumeration", Shards: shards16,
		Rule:   "seed files (still corpus of C17 + animated corpus + ~60 generator-made VP8L files that no encoder emits: every backward-reference program, cache, meta-prefix and code-shape variant on narrow and wide pictures) x {every prefix; every byte position x 9-value boundary alphabet; every recognised little-endian size/dimension field x 15-value boundary alphabet; every chunk deleted / duplicated / swapped / re-tagged with each known FourCC; all pairs of deviations {0x00,0xff,b^1} inside the header region of one file per layout class} plus RIFF/chunk skeleton strings over the size alphabet; each input runs Decode, DecodeConfig, GetFeatures, image.Decode, the demuxer with all accessors, animation.DecodeBytes and animation.Decode(reader) + DecodeFrames / DecodeFramesParallel + AnimDecoder to exhaustion twice; oracle: no panic, no process death, CPU cap, TotalAlloc bound from length + declared pixels, well-formed results; distinct = distinct input id",
		Assume: []string{"inputs whose headers declare more than 2^22 (thorough 2^26) pixels within the documented caps are skipped (legitimately expensive) and counted", "allocation is measured as runtime TotalAlloc delta, CPU as process CPU time; CPU cap per input = 60 s + 4 us per declared pixel; no wall-clock oracle except a 600 s zero-CPU deadlock verdict", "worker count 2 at every site, pools reuse most-recent"},
		Run: func(e *fw.Env, r *fw.Result) {
			if len(e.Args) >= 1 && e.Args[0] == "worker" {
				var from int64
				fmt.Sscan(e.Args[1], &from)
				c05Worker(e, from, e.Args[2], e.Args[3])
				return
			}
			// supervisor for this shard
			dir := filepath.Join(e.BuildDir, "c05")
			os.MkdirAll(dir, 0o755)
			outPath := filepath.Join(dir, fmt.Sprintf("events-%d.jsonl", e.Shard))
			progPath := filepath.Join(dir, fmt.Sprintf("progress-%d", e.Shard))
			os.Remove(outPath)
			os.Remove(progPath)
			exe, _ := os.Executable()
			from := int64(0)
			restarts := 0
			for {
				cmd := exec.Command(exe, "C05", e.Tier, "-shard", fmt.Sprintf("%d/%d", e.Shard, e.NShard), "-out", "/dev/null", "worker", fmt.Sprint(from), outPath, progPath)
				cmd.Env = append(os.Environ(), fmt.Sprintf("VERIF_BUDGET_S=%d", int(time.Until(e.Deadline).Seconds())))
				var stderr bytes.Buffer
				cmd.Stderr = &stderr
				err := cmd.Run()
				if err == nil {
					break
				}
				// abnormal exit: attribute to the announced input and resume after it
				pb, _ := os.ReadFile(progPath)
				if len(pb) < 8 {
					r.HarnessError("worker died before announcing an input: %v: %s", err, tail(stderr.String(), 600))
					break
				}
				k := int64(binary.LittleEndian.Uint64(pb))
				code := -1
				if ee, ok := err.(*exec.ExitError); ok {
					code = ee.ExitCode()
				}
				if code != 3 { // 3 = watchdog already recorded the violation
					f, _ := os.OpenFile(outPath, os.O_APPEND|os.O_CREATE|os.O_WRONLY, 0o644)
					ev := c05Event{Kind: "violation", ID: fmt.Sprintf("input#%d", k), Desc: fmt.Sprintf("worker process died (%v): %s", err, firstFatal(stderr.String()))}
					b, _ := json.Marshal(ev)
					f.Write(append(b, '\n'))
					f.Close()
				}
				from = k + 1
				restarts++
				if restarts > 200 {
					r.Cap("more than 200 worker restarts in shard %d", e.Shard)
					break
				}
			}
			r.Count("worker_restarts", int64(restarts))
			// collect
			f, err := os.Open(outPath)
			if err != nil {
				r.HarnessError("no events file: %v", err)
				return
			}
			defer f.Close()
			sc := bufio.NewScanner(f)
			sc.Buffer(make([]byte, 1<<20), 64<<20)
			for sc.Scan() {
				var ev c05Event
				if json.Unmarshal(sc.Bytes(), &ev) != nil {
					continue
				}
				switch ev.Kind {
				case "violation":
					r.Violate(c05Key(ev.ID, ev.Desc), ev.Desc+" [input "+ev.ID+"]", map[string]string{"id": ev.ID, "hex": ev.Hex})
				case "capped":
					r.Cap("deadline reached before the enumeration finished")
				case "done":
					r.Eval(ev.Evals)
					r.Count("skipped_declared_pixels_above_cap", ev.Skipped)
					if ev.MaxAlloc > r.Counters["max_totalalloc_one_input"] {
						r.Counters["max_totalalloc_one_input"] = ev.MaxAlloc
					}
					for i := int64(0); i < ev.DistinctIDs; i++ {
						r.DistinctHash(uint64(e.Shard)<<40 | uint64(i) | uint64(from)<<50)
					}
					for _, s := range ev.Sample {
						r.Sample(4, map[string]string{"input": s})
					}
				}
			}
		},
		Replay: func(e *fw.Env, raw json.RawMessage) string {
			vhook.ClearSites()
			vhook.SetDefault(2)
			pinPoolsOnly()
			var rp map[string]string
			json.Unmarshal(raw, &rp)
			data, err := hex.DecodeString(rp["hex"])
			if err != nil || rp["hex"] == "" && !strings.Contains(rp["id"], "empty") {
				return "replay file carries no input bytes (process-death verdicts are replayed by re-running the check)"
			}
			return c05Run(data)
		},
	})
}
