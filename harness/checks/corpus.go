package checks

import (
	"bytes"
	"fmt"
	"image"
	"os"
	"path/filepath"
	"strings"
	"time"

	webp "github.com/deepteams/webp"
	"github.com/deepteams/webp/animation"
	"github.com/deepteams/webp/internal/zzverif/imgs"
	"github.com/deepteams/webp/internal/zzverif/riffwalk"
	"github.com/deepteams/webp/internal/zzverif/vp8gen"
	"github.com/deepteams/webp/internal/zzverif/vp8lgen"
)

// namedFile is one seed file of the fault-enumeration corpus.
type namedFile struct {
	Name  string
	Data  []byte
	Still bool
}

func mustEncode(img image.Image, o *webp.EncoderOptions) []byte {
	b, err, p := encode(img, o)
	if err != nil || p != "" {
		panic(fmt.Sprintf("corpus: encode failed: %v %s", err, p))
	}
	return b
}

func lossyOpts(f func(o *webp.EncoderOptions)) *webp.EncoderOptions {
	o := webp.DefaultOptions()
	if f != nil {
		f(o)
	}
	return o
}

// rewrap rebuilds a still file in extended layout with the given extra chunks.
func rewrap(data []byte, before, after [][]byte, flags byte) []byte {
	f, err := riffwalk.Parse(data)
	if err != nil || len(f.Frames) != 1 {
		panic("corpus: rewrap of a non-still file")
	}
	fr := &f.Frames[0]
	var body [][]byte
	if fr.HasALPH || fr.Lossless && fr.VP8L.Alpha {
		flags |= riffwalk.FlagAlpha
	}
	body = append(body, riffwalk.VP8X(flags, fr.BitW(), fr.BitH()))
	body = append(body, before...)
	if fr.HasALPH {
		body = append(body, riffwalk.ChunkBytes("ALPH", fr.Alpha))
	}
	if fr.Lossless {
		body = append(body, riffwalk.ChunkBytes("VP8L", fr.Bitstream))
	} else {
		body = append(body, riffwalk.ChunkBytes("VP8 ", fr.Bitstream))
	}
	body = append(body, after...)
	return riffwalk.RIFF(body...)
}

// corpusThorough selects the larger still corpus: every generator-made file
// instead of a sample, and larger encoder-made pictures (set by C16/C17 in the
// thorough tier and by their replays, which look files up by name).
var corpusThorough bool

// corpusMenus adds every single-menu-deviation file of the generators (not the coefficient
// product) also in the quick tier: cheap for the checks that only read headers or cut
// prefixes (C16, C17), too many seeds for C05's per-byte mutation.
var corpusMenus bool

// stillCorpus returns the valid still files used by C17 (every prefix) and as
// seeds by C05 and C16.  All are small so that per-byte enumeration is exhaustive.
func stillCorpus(seed int64, repo string) []namedFile {
	pin()
	var out []namedFile
	add := func(name string, b []byte) { out = append(out, namedFile{name, b, true}) }
	noise := func(w, h int) *image.NRGBA { return imgs.Make(w, h, "noise", "opaque", seed) }
	// lossy, 1/2/4/8 token partitions x sizes
	for p := 0; p <= 3; p++ {
		for _, s := range [][2]int{{16, 16}, {33, 47}} {
			pp := p
			add(fmt.Sprintf("lossy-%dx%d-part%d", s[0], s[1], 1<<p), mustEncode(noise(s[0], s[1]), lossyOpts(func(o *webp.EncoderOptions) { o.Partitions = pp; o.Quality = 40 })))
		}
	}
	add("lossy-1x1", mustEncode(noise(1, 1), nil))
	add("lossy-gradient-q90-seg1", mustEncode(imgs.Make(40, 24, "gradient", "opaque", seed), lossyOpts(func(o *webp.EncoderOptions) { o.Quality = 90; o.Segments = 1 })))
	add("lossy-simplefilter", mustEncode(noise(24, 24), lossyOpts(func(o *webp.EncoderOptions) { o.FilterType = 0; o.Quality = 30 })))
	add("lossy-nofilter-m0", mustEncode(noise(17, 17), lossyOpts(func(o *webp.EncoderOptions) { o.FilterStrength = 0; o.Method = 0 })))
	// lossless: content classes select the transforms
	for _, c := range []string{"flat", "c2", "c4", "c16", "c17", "gradient", "noise"} {
		add("lossless-"+c, mustEncode(imgs.Make(17, 9, c, "opaque", seed), &webp.EncoderOptions{Lossless: true, Quality: 75, Method: 4}))
	}
	add("lossless-c4-m6-q100", mustEncode(imgs.Make(33, 17, "c4", "opaque", seed), &webp.EncoderOptions{Lossless: true, Quality: 100, Method: 6}))
	add("lossless-alpha", mustEncode(imgs.Make(16, 16, "noise", "agradient", seed), &webp.EncoderOptions{Lossless: true, Quality: 75, Method: 4}))
	add("lossless-q0-m0", mustEncode(imgs.Make(20, 20, "gradient", "binary", seed), &webp.EncoderOptions{Lossless: true, Quality: 0, Method: 0}))
	add("lossless-1x1", mustEncode(imgs.Make(1, 1, "flat", "opaque", seed), &webp.EncoderOptions{Lossless: true, Quality: 75, Method: 4}))
	// lossy + alpha: raw and VP8L-compressed alpha, each filter
	for _, ac := range []int{0, 1} {
		for _, af := range []int{0, 1, 2} {
			acc, aff := ac, af
			add(fmt.Sprintf("lossyalpha-ac%d-af%d", ac, af), mustEncode(imgs.Make(17, 9, "noise", "agradient", seed), lossyOpts(func(o *webp.EncoderOptions) { o.AlphaCompression = acc; o.AlphaFiltering = aff })))
		}
	}
	add("lossyalpha-binary-q50", mustEncode(imgs.Make(24, 16, "gradient", "binary", seed), lossyOpts(func(o *webp.EncoderOptions) { o.AlphaQuality = 50 })))
	// extended with metadata
	add("lossy-meta-all-odd", mustEncode(noise(16, 16), lossyOpts(func(o *webp.EncoderOptions) { o.ICC, o.EXIF, o.XMP = blob(5, 1), blob(3, 2), blob(1, 3) })))
	add("lossless-meta-exif", mustEncode(imgs.Make(9, 5, "c4", "few", seed), &webp.EncoderOptions{Lossless: true, Quality: 75, Method: 4, EXIF: blob(6, 2)}))
	add("lossyalpha-meta-icc-xmp", mustEncode(imgs.Make(16, 8, "noise", "few", seed), lossyOpts(func(o *webp.EncoderOptions) { o.ICC, o.XMP = blob(7, 1), blob(4, 3) })))
	// hand-assembled layouts: metadata before/after, unknown chunks
	base := mustEncode(noise(16, 16), nil)
	add("hand-vp8x-plain", rewrap(base, nil, nil, 0))
	add("hand-unknown-before", rewrap(base, [][]byte{riffwalk.ChunkBytes("JUNK", []byte{1, 2, 3})}, nil, 0))
	add("hand-unknown-after", rewrap(base, nil, [][]byte{riffwalk.ChunkBytes("JUNK", []byte{1, 2, 3, 4})}, 0))
	add("hand-exif-xmp-after", rewrap(base, nil, [][]byte{riffwalk.ChunkBytes("EXIF", blob(3, 2)), riffwalk.ChunkBytes("XMP ", blob(5, 3))}, riffwalk.FlagEXIF|riffwalk.FlagXMP))
	add("hand-icc-before", rewrap(mustEncode(imgs.Make(9, 9, "gradient", "agradient", seed), nil), [][]byte{riffwalk.ChunkBytes("ICCP", blob(9, 1))}, nil, riffwalk.FlagICC))
	add("hand-lossless-vp8x", rewrap(mustEncode(imgs.Make(9, 9, "c4", "binary", seed), &webp.EncoderOptions{Lossless: true, Quality: 75, Method: 4}), nil, nil, 0))
	// generator-made files: valid streams no encoder emits (every 3rd VP8L file, every 8th key frame)
	for i, f := range genCorpus(seed) {
		if i%3 == 0 || corpusThorough || corpusMenus {
			out = append(out, f)
		}
	}
	for i, f := range vp8Corpus(seed) {
		if i%8 == 0 || corpusThorough || corpusMenus && !strings.Contains(f.Name, "coeffs") {
			out = append(out, f)
		}
	}
	if corpusThorough {
		for p := 0; p <= 3; p++ {
			pp := p
			add(fmt.Sprintf("lossy-70x50-part%d-m6", 1<<p), mustEncode(imgs.Make(70, 50, "regions4", "opaque", seed), lossyOpts(func(o *webp.EncoderOptions) { o.Partitions = pp; o.Method = 6; o.Quality = 60 })))
		}
		add("lossyalpha-70x50-late", mustEncode(imgs.Make(70, 50, "noise", "late", seed), lossyOpts(nil)))
		add("lossless-70x50-regions", mustEncode(imgs.Make(70, 50, "regionsV", "opaque", seed), &webp.EncoderOptions{Lossless: true, Quality: 90, Method: 5}))
		add("lossless-40x40-noise-late", mustEncode(imgs.Make(40, 40, "noise", "late", seed), &webp.EncoderOptions{Lossless: true, Quality: 75, Method: 4}))
		add("lossless-64x64-patchwork-q100", mustEncode(imgs.Make(64, 64, "patchwork", "semi", seed), &webp.EncoderOptions{Lossless: true, Quality: 100, Method: 6}))
	}
	// the repository's own test files
	if m, _ := filepath.Glob(filepath.Join(repo, "testdata", "*.webp")); len(m) > 0 {
		for _, p := range m {
			if b, err := os.ReadFile(p); err == nil && len(b) < 8192 {
				add("testdata-"+filepath.Base(p), b)
			}
		}
	}
	return out
}

// animCorpus returns small animated files.
func animCorpus(seed int64) []namedFile {
	pin()
	var out []namedFile
	mk := func(name string, lossless bool, kmax int, frames ...image.Image) {
		var buf bytes.Buffer
		enc := animation.NewEncoder(&buf, 16, 16, &animation.EncodeOptions{Lossless: lossless, Quality: 60, Kmax: kmax, LoopCount: 3})
		for i, f := range frames {
			if err := enc.AddFrame(f, time.Duration(40+10*i)*time.Millisecond); err != nil {
				panic(err)
			}
		}
		if err := enc.Close(); err != nil {
			panic(err)
		}
		out = append(out, namedFile{name, buf.Bytes(), false})
	}
	a := imgs.Make(16, 16, "c4", "opaque", seed)
	b := imgs.Make(16, 16, "c4", "opaque", seed)
	b.Pix[4*(5*16+5)] ^= 0xff
	c := imgs.Make(16, 16, "gradient", "binary", seed)
	d := imgs.Make(16, 16, "noise", "agradient", seed)
	mk("anim-lossless-2", true, 0, a, b)
	mk("anim-lossless-3-alpha", true, 0, a, c, d)
	mk("anim-lossless-kmax2", true, 2, a, b, c, b)
	mk("anim-lossy-3", false, 0, a, b, d)
	// hand-assembled: every blend x dispose pair with sub-frames
	fr := mustEncode(imgs.Make(4, 4, "c4", "agradient", seed), &webp.EncoderOptions{Lossless: true, Quality: 75, Method: 4})
	pf, _ := riffwalk.Parse(fr)
	bs := riffwalk.ChunkBytes("VP8L", pf.Frames[0].Bitstream)
	var body [][]byte
	body = append(body, riffwalk.VP8X(riffwalk.FlagAnim|riffwalk.FlagAlpha, 8, 8), riffwalk.ANIM(0x11223344, 2))
	k := 0
	for _, nb := range []bool{false, true} {
		for _, dp := range []bool{false, true} {
			body = append(body, riffwalk.ANMF(2*(k%2)*2, 2*(k/2)*2, 4, 4, 10*k, nb, dp, bs))
			k++
		}
	}
	out = append(out, namedFile{"anim-hand-blend-dispose", riffwalk.RIFF(body...), false})
	// lossy frame with ALPH inside ANMF
	la := mustEncode(imgs.Make(6, 6, "noise", "agradient", seed), nil)
	pl, _ := riffwalk.Parse(la)
	sub := append(riffwalk.ChunkBytes("ALPH", pl.Frames[0].Alpha), riffwalk.ChunkBytes("VP8 ", pl.Frames[0].Bitstream)...)
	out = append(out, namedFile{"anim-hand-lossy-alpha", riffwalk.RIFF(
		riffwalk.VP8X(riffwalk.FlagAnim|riffwalk.FlagAlpha, 8, 8), riffwalk.ANIM(0, 0),
		riffwalk.ANMF(0, 0, 6, 6, 30, false, false, sub), riffwalk.ANMF(2, 2, 6, 6, 30, true, true, sub)), false})
	return out
}

// presetPicker answers the generator's picks from a label->value table.
type presetPicker map[string]int

func (p presetPicker) Pick(n int, label string) int {
	if v, ok := p[label]; ok && v < n {
		return v
	}
	return 0
}
func (p presetPicker) Free(n int, label string) int { return p.Pick(n, label) }

// genCorpus returns RIFF-wrapped VP8L streams from the syntax-directed
// generator: valid files that no encoder emits (used as fault-enumeration
// seeds by C05 and as decode cases elsewhere).
func genCorpus(seed int64) []namedFile {
	var out []namedFile
	add := func(name string, p presetPicker) {
		s, _ := vp8lgen.Generate(p, seed)
		out = append(out, namedFile{"gen-" + name, riffwalk.RIFF(riffwalk.ChunkBytes("VP8L", s)), true})
	}
	// (slices, not maps: every shard process must see the same corpus in the same order)
	for _, d := range []struct {
		n string
		i int
	}{{"4x4", 0}, {"1x17", 3}, {"2x9", 4}, {"9x4", 9}} {
		dn, di := d.n, d.i
		add(dn+"-base", presetPicker{"dims": di})
		for c := 1; c <= 7; c++ {
			add(fmt.Sprintf("%s-copies%d", dn, c), presetPicker{"dims": di, "main-copies": c})
		}
		for c := 1; c <= 6; c += 2 {
			add(fmt.Sprintf("%s-cache%d", dn, c), presetPicker{"dims": di, "main-cache": c})
		}
	}
	for m := 1; m <= 6; m++ {
		add(fmt.Sprintf("9x4-meta%d", m), presetPicker{"dims": 9, "meta": m, "main-cache": 5})
	}
	add("8x8-meta5", presetPicker{"dims": 8, "meta": 5})
	for sh := 1; sh <= 4; sh++ {
		add(fmt.Sprintf("9x4-shape%d", sh), presetPicker{"dims": 9, "main-code-shape": sh, "main-copies": 3})
	}
	// a few transform orders, with sub-image features
	for i, o := range vp8lgen.TransformOrders {
		if len(o) == 1 || len(o) == 4 && i%7 == 0 || len(o) == 2 && o[0] == 3 {
			add(fmt.Sprintf("16x3-order%d", i), presetPicker{"dims": 10, "transforms": i, "sub-copies": 6, "pred-mode": 0})
		}
	}
	return out
}

type vp8Preset map[string]int

func (p vp8Preset) Pick(n int, label string) int {
	if v, ok := p[label]; ok && v < n {
		return v
	}
	return 0
}
func (p vp8Preset) Free(n int, label string) int { return p.Pick(n, label) }

// vp8Corpus returns RIFF-wrapped key frames from the VP8 generator: every
// single deviation of every menu on a 3x2-macroblock picture, and the
// coefficient-program x magnitude product (extreme coefficient values).
func vp8Corpus(seed int64) []namedFile {
	var out []namedFile
	add := func(name string, p vp8Preset) {
		f, _ := vp8gen.Generate(p, seed)
		out = append(out, namedFile{"vp8gen-" + name, riffwalk.RIFF(riffwalk.ChunkBytes("VP8 ", f.Encode())), true})
	}
	menus := []struct {
		label string
		n     int
	}{{"qbase", 6}, {"qdelta-y1dc", 4}, {"qdelta-y2dc", 4}, {"qdelta-y2ac", 4}, {"qdelta-uvdc", 4}, {"qdelta-uvac", 4}, {"segments", 5},
		{"filter-level", 5}, {"filter-simple", 2}, {"sharpness", 3}, {"lf-delta", 3}, {"partitions", 4}, {"ymode", 8}, {"submode", 11}, {"uvmode", 5}, {"skip", 4}, {"prob-updates", 4}, {"zero-spelling", 3}, {"hscale", 4}, {"vscale", 4}}
	add("base", vp8Preset{"dims": 4, "coeffs": 7})
	for _, mn := range menus {
		label, n := mn.label, mn.n
		for v := 1; v < n; v++ {
			p := vp8Preset{"dims": 4, "coeffs": 7, "filter-level": 3, label: v}
			if label == "submode" {
				p["ymode"] = 5
			}
			add(fmt.Sprintf("%s%d", label, v), p)
		}
	}
	for c := 1; c <= 10; c++ {
		for m := 0; m < 11; m += 2 {
			for _, q := range []int{0, 1, 5} {
				name := fmt.Sprintf("coeffs%d-mag%d-q%d", c, m, q)
				if q == 5 && m >= 6 {
					// quantiser index 127 with levels >= 11: dequantised coefficients of several
					// thousand, beyond what 16-bit inverse-DCT lanes hold without wrapping
					name = "extreme-" + name
				}
				add(name, vp8Preset{"dims": 4, "coeffs": c, "magnitude": m, "qbase": q})
			}
		}
	}
	return out
}
