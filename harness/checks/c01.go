package checks

import (
	"encoding/json"
	"fmt"
	"image"
	"image/color"
	"strings"

	webp "github.com/deepteams/webp"
	"github.com/deepteams/webp/internal/zzverif/choice"
	"github.com/deepteams/webp/internal/zzverif/fw"
	"github.com/deepteams/webp/internal/zzverif/imgs"
	"github.com/deepteams/webp/internal/zzverif/refdec"
)

// C01 — lossless round trip (DESIGN.md section 3, C01).

type c01Case struct {
	W, H    int
	Content string `json:",omitempty"`
	Alpha   string `json:",omitempty"`
	Type    string
	Q       int
	M       int
	Exact   bool
	Meta    bool
	Tiny    []int `json:",omitempty"` // indices into tinyAlphabet, row-major (tiny universe)
	Workers int   `json:",omitempty"`
	Seed    int64
}

var tinyAlphabet = []color.NRGBA{
	{0, 0, 0, 255}, {255, 255, 255, 255}, {255, 0, 0, 255}, {1, 2, 3, 128}, {9, 9, 9, 0},
}

func (cs *c01Case) source() *image.NRGBA {
	if cs.Tiny != nil {
		img := image.NewNRGBA(image.Rect(0, 0, cs.W, cs.H))
		for i, k := range cs.Tiny {
			img.SetNRGBA(i%cs.W, i/cs.W, tinyAlphabet[k])
		}
		return img
	}
	if strings.HasPrefix(cs.Content, "motif:") {
		return motifPicture(cs.Content)
	}
	return imgs.Make(cs.W, cs.H, cs.Content, cs.Alpha, cs.Seed)
}

// motifPicture builds the picture "motif:K:a:b": a K-colour palette picture (K > 16: one
// index per pixel) whose index stream makes an LZ77 coder emit, four times over,
//
//	copy(... a)   b   copy(a ...)   b
//
// i.e. a copy ending in colour a, colour b alone, a copy starting with a, b again.  The
// part of C01 that uses it enumerates EVERY ordered pair (a,b) of palette entries, so
// whichever two symbols share a slot of whatever colour cache the encoder chooses (or a
// prefix-code leaf, or a hash bucket), the pair is there in both orders: the encoder's
// model of the decoder state (colour cache contents after copies vs. after literals) is
// exercised at every collision, without the check knowing the hash function.
func motifPicture(content string) *image.NRGBA {
	var K, a, b int
	fmt.Sscanf(content, "motif:%d:%d:%d", &K, &a, &b)
	pal := make([]color.NRGBA, K)
	for i := range pal {
		pal[i] = color.NRGBA{R: uint8(10 * i), G: uint8(255 - 3*i), B: uint8(7 * i), A: 255}
	}
	var fill []int
	for i := 0; i < K; i++ {
		if i != a && i != b {
			fill = append(fill, (i+a)%K)
		}
	}
	// (the rotation by a may map onto a or b again: filter once more)
	var f2 []int
	seen := map[int]bool{a: true, b: true}
	for _, v := range fill {
		if !seen[v] {
			seen[v] = true
			f2 = append(f2, v)
		}
	}
	for i := 0; i < K; i++ {
		if !seen[i] {
			seen[i] = true
			f2 = append(f2, i)
		}
	}
	fill, rest := f2[:13], f2[13:]
	z1, z2, z3 := fill[0], fill[1], fill[2]
	x1 := append(append([]int{}, fill[3:8]...), a)
	x2 := append([]int{a}, fill[8:13]...)
	motif := append(append(append(append([]int{}, x1...), b), x2...), b)
	var stream []int
	stream = append(stream, z1)
	stream = append(stream, x1...)
	stream = append(stream, z2)
	stream = append(stream, x2...)
	stream = append(stream, z3)
	stream = append(stream, rest...)
	for k := 0; k < 4; k++ {
		stream = append(stream, motif...)
	}
	const w = 8
	for len(stream)%w != 0 {
		stream = append(stream, z1)
	}
	img := image.NewNRGBA(image.Rect(0, 0, w, len(stream)/w))
	for i, idx := range stream {
		img.SetNRGBA(i%w, i/w, pal[idx])
	}
	return img
}

func (cs *c01Case) key() string {
	if cs.Tiny != nil {
		return fmt.Sprintf("lossless tiny %dx%d px=%v q=%d m=%d exact=%v", cs.W, cs.H, cs.Tiny, cs.Q, cs.M, cs.Exact)
	}
	return fmt.Sprintf("lossless %dx%d %s/%s as %s q=%d m=%d exact=%v meta=%v", cs.W, cs.H, cs.Content, cs.Alpha, cs.Type, cs.Q, cs.M, cs.Exact, cs.Meta)
}

// run executes one case; "" means the property held.
func (cs *c01Case) run() string {
	src := cs.source()
	typ := cs.Type
	if typ == "" {
		typ = "NRGBA"
	}
	if (typ == "Gray" || typ == "YCbCr") && cs.Alpha != "opaque" {
		return "" // these types cannot carry alpha: not a case
	}
	if typ == "Paletted" && cs.W*cs.H > 4096 {
		typ = "NRGBA"
	}
	in := imgs.As(src, typ)
	want := imgs.Expect(in)
	o := &webp.EncoderOptions{Lossless: true, Quality: float32(cs.Q), Method: cs.M, Exact: cs.Exact}
	if cs.Meta {
		o.EXIF = []byte("Exif\x00\x00verif")
	}
	data, err, p := encode(in, o)
	if p != "" {
		return "Encode panicked: " + first(p)
	}
	if err != nil {
		return "Encode rejected an accepted lossless option set: " + err.Error()
	}
	got, err, p := decode(data)
	if p != "" {
		return "Decode panicked: " + first(p)
	}
	if err != nil {
		return "Decode rejected Encode's output: " + err.Error()
	}
	n, firstPx := imgs.Diff(want, got, !cs.Exact)
	_, rd, rerr := refdec.DecodeStill(data)
	refs := ""
	if rerr != nil {
		refs = "; independent decoder rejects the file: " + rerr.Error()
	} else if rd.NRGBA == nil {
		refs = "; file is not lossless"
	} else if rn, rf := imgs.Diff(want, rd.NRGBA, !cs.Exact); rn != 0 {
		refs = fmt.Sprintf("; independent decoder also differs in %d px (%s) => encoder fault", rn, rf)
	} else if n != 0 {
		refs = "; independent decoder returns the source exactly => decoder fault"
	}
	if n != 0 {
		return fmt.Sprintf("%d wrong pixels after round trip, first %s%s", n, firstPx, refs)
	}
	if refs != "" {
		return "round trip ok with this package's decoder" + refs
	}
	return ""
}

func first(s string) string {
	for i := 0; i < len(s); i++ {
		if s[i] == '\n' {
			return s[:i]
		}
	}
	return s
}

var c01Sizes = func() [][2]int {
	var out [][2]int
	for _, w := range []int{1, 2, 3, 4, 5, 7, 8, 9, 15, 16, 17, 31, 33} {
		for _, h := range []int{1, 2, 3, 5, 8, 17} {
			out = append(out, [2]int{w, h})
		}
	}
	return out
}()

func c01Body(e *fw.Env, r *fw.Result) func(c *choice.Ctx) {
	quick := e.Quick()
	qA := []int{0, 25, 50, 75, 90, 100}
	qFull := []int{0, 9, 10, 24, 25, 26, 49, 50, 74, 75, 76, 89, 90, 100}
	sizesA := [][2]int{{1, 1}, {4, 3}, {9, 5}, {16, 8}, {17, 17}, {33, 5}}
	alphasA := []string{"opaque", "binary", "agradient", "late"}
	if !quick {
		sizesA = c01Sizes
		alphasA = imgs.Alphas
		qA = qFull
	}
	bigSizes := [][2]int{{64, 64}, {65, 33}, {129, 2}, {320, 320}, {1, 16383}, {16383, 1}}
	return func(c *choice.Ctx) {
		cs := &c01Case{Seed: e.Seed, Type: "NRGBA"}
		parts := 8
		if !quick {
			parts = 10
		}
		switch c.PickFree(parts, "part") {
		case 0: // transform-selection product
			s := sizesA[c.PickFree(len(sizesA), "size")]
			cs.W, cs.H = s[0], s[1]
			cs.Content = imgs.Contents[c.PickFree(len(imgs.Contents), "content")]
			cs.Alpha = alphasA[c.PickFree(len(alphasA), "alpha")]
			cs.Q = qA[c.PickFree(len(qA), "q")]
			cs.M = c.PickFree(7, "method")
		case 1: // sizes x types
			s := c01Sizes[c.PickFree(len(c01Sizes), "size")]
			cs.W, cs.H = s[0], s[1]
			cs.Content = []string{"c4", "noise"}[c.PickFree(2, "content")]
			cs.Alpha = []string{"opaque", "few"}[c.PickFree(2, "alpha")]
			cs.Type = imgs.Types[c.PickFree(len(imgs.Types), "type")]
			qm := [][2]int{{75, 4}, {100, 6}, {0, 0}}[c.PickFree(3, "qm")]
			cs.Q, cs.M = qm[0], qm[1]
		case 2: // exact / metadata / alpha
			s := [][2]int{{5, 3}, {16, 16}}[c.PickFree(2, "size")]
			cs.W, cs.H = s[0], s[1]
			cs.Content = []string{"c4", "noise", "gradient"}[c.PickFree(3, "content")]
			cs.Alpha = imgs.Alphas[c.PickFree(len(imgs.Alphas), "alpha")]
			cs.Exact = c.PickFree(2, "exact") == 1
			cs.Meta = c.PickFree(2, "meta") == 1
			cs.M = []int{0, 4, 6}[c.PickFree(3, "method")]
			cs.Q = []int{0, 75, 100}[c.PickFree(3, "q")]
		case 3: // tiny universe: every image of these shapes over a 5-pixel alphabet
			s := [][2]int{{1, 1}, {2, 1}, {1, 2}, {3, 1}, {2, 2}}[c.PickFree(5, "shape")]
			cs.W, cs.H = s[0], s[1]
			cs.Tiny = make([]int, cs.W*cs.H)
			for i := range cs.Tiny {
				cs.Tiny[i] = c.PickFree(len(tinyAlphabet), "px")
			}
			cs.M = []int{0, 4, 6}[c.PickFree(3, "method")]
			cs.Q = []int{0, 75, 100}[c.PickFree(3, "q")]
			cs.Exact = c.PickFree(2, "exact") == 1
		case 4: // region pictures on medium sizes: several prefix-code groups, tile grids of every shape
			ms := [][2]int{{40, 48}, {56, 48}, {88, 48}, {48, 40}, {72, 24}, {33, 65}, {16, 24}, {16, 48}, {24, 16}, {48, 16}, {64, 192}}
			if !quick {
				ms = append(ms, [2]int{200, 112}, [2]int{136, 72}, [2]int{64, 64})
			}
			s := ms[c.PickFree(len(ms), "size")]
			cs.W, cs.H = s[0], s[1]
			cs.Content = []string{"regionsV", "regionsH", "regions4", "bandsH", "bandsV"}[c.PickFree(5, "content")]
			cs.Alpha = []string{"opaque", "binary"}[c.PickFree(2, "alpha")]
			cs.Q = []int{25, 75, 100}[c.PickFree(3, "q")]
			cs.M = c.PickFree(7, "method")
		case 5: // alphabet-size sweep: every number of distinct colours 1..260 (all present, noise layout);
			// the number of used symbols decides the shape of every code-length table (zero runs, palette packing)
			cs.W, cs.H = 20, 20
			cs.Content = fmt.Sprintf("k%d", 1+c.PickFree(260, "colours"))
			cs.Alpha = "opaque"
			qm := [][2]int{{0, 0}, {25, 3}, {75, 4}, {100, 6}}
			if !quick {
				qm = append(qm, [2]int{25, 0}, [2]int{75, 3}, [2]int{50, 5}, [2]int{0, 6})
			}
			x := qm[c.PickFree(len(qm), "qm")]
			cs.Q, cs.M = x[0], x[1]
		case 6: // pictures beyond the encoder's size thresholds (more than 50000 pixels: hash-chain window;
			// more than 256 / 1024 histogram tiles; several rows of predictor tiles per worker chunk)
			s := [][2]int{{224, 225}, {320, 200}}[c.PickFree(2, "size")]
			cs.W, cs.H = s[0], s[1]
			cs.Content = []string{"regions4", "many", "c16", "bandsH"}[c.PickFree(4, "content")]
			cs.Alpha = []string{"opaque", "late"}[c.PickFree(2, "alpha")]
			qm := [][2]int{{75, 4}, {90, 4}, {100, 6}, {25, 0}, {50, 2}}[c.PickFree(5, "qm")]
			cs.Q, cs.M = qm[0], qm[1]
		case 7: // copy / literal / copy / literal motif for every ordered pair of palette entries
			K := []int{24, 40, 17}[c.PickFree(3, "palette")]
			a := c.PickFree(K, "a")
			b := c.PickFree(K, "b")
			if a == b {
				return
			}
			cs.Content = fmt.Sprintf("motif:%d:%d:%d", K, a, b)
			cs.Alpha = "opaque"
			m := motifPicture(cs.Content).Rect
			cs.W, cs.H = m.Dx(), m.Dy()
			qm := [][2]int{{75, 4}, {100, 6}, {30, 0}}
			if !quick {
				qm = append(qm, [2]int{50, 2}, [2]int{90, 5}, [2]int{26, 3})
			}
			x := qm[c.PickFree(len(qm), "qm")]
			cs.Q, cs.M = x[0], x[1]
		case 8: // thorough: large pictures (parallel paths eligible, strips at the dimension cap)
			s := bigSizes[c.PickFree(len(bigSizes), "size")]
			cs.W, cs.H = s[0], s[1]
			cs.Content = []string{"c4", "c17", "gradient", "noise"}[c.PickFree(4, "content")]
			cs.Alpha = []string{"opaque", "binary", "agradient"}[c.PickFree(3, "alpha")]
			qm := [][2]int{{75, 4}, {100, 6}, {0, 0}, {75, 5}, {50, 2}}[c.PickFree(5, "qm")]
			cs.Q, cs.M = qm[0], qm[1]
		case 9: // thorough: every Quality 0..100 on a core set
			core := [][2]int{{9, 5}, {16, 16}, {33, 17}}
			s := core[c.PickFree(len(core), "size")]
			cs.W, cs.H = s[0], s[1]
			cs.Content = []string{"c2", "c4", "c16", "c17", "c256", "gradient", "noise"}[c.PickFree(7, "content")]
			cs.Alpha = []string{"opaque", "few"}[c.PickFree(2, "alpha")]
			cs.Q = c.PickFree(101, "q")
			cs.M = c.PickFree(7, "method")
		}
		if !c.Mine() {
			return
		}
		if e.Expired() {
			r.Cap("deadline reached before the enumeration finished")
			return
		}
		r.Eval(1)
		d := cs.run()
		if cs.Tiny != nil || cs.W*cs.H > 1 || cs.Type != "NRGBA" {
			r.Distinct(cs.key())
		}
		r.Sample(3, cs)
		if d != "" {
			if r.Confirm(2, d, cs.run) {
				r.Violate(cs.key(), d+" ["+cs.key()+"]", cs)
			}
		}
	}
}

func init() {
	fw.Register(&fw.Check{
		ID: "C01", Level: "exploration", Shards: shards16,
		Rule:   "full product of (size class x colour-content class x alpha class x Go image type x Quality thresholds x Method 0..6 x Exact x metadata) in four sub-products plus every image of shape 1x1,2x1,1x2,3x1,2x2 over a 5-pixel alphabet, plus every number of distinct colours 1..260 on a 20x20 noise layout, plus the copy/literal/copy/literal motif for EVERY ordered pair of entries of a 17-, 24- and 40-colour palette (colour-cache and hash collisions in both orders) x 3 Quality/Method pairs, plus 224x225 and 320x200 pictures (beyond the 50000-pixel and histogram-tile thresholds) x 4 contents x 2 alpha classes x 5 Quality/Method pairs; a case is non-trivial if it is not the 1x1 NRGBA base picture; distinct = distinct (image class, option) tuple",
		Assume: []string{"worker count pinned to 1 and pools never reuse (C12/C11 study those)", "independent decoder: vendored golang.org/x/image/vp8l", "filler pixel values inside a class are a fixed function of position and VERIF_SEED"},
		Run: func(e *fw.Env, r *fw.Result) {
			pin()
			st := choice.Explore(choice.Config{Bound: -1, Shard: e.Shard, NShard: e.NShard, Stop: e.Expired}, c01Body(e, r))
			if st.Capped {
				r.Cap("deadline reached before the enumeration finished")
			}
			if e.Shard == 0 {
				r.Count("leaves_enumerated", st.Runs)
			}
		},
		Replay: func(e *fw.Env, raw json.RawMessage) string {
			pin()
			var cs c01Case
			if err := json.Unmarshal(raw, &cs); err != nil {
				return "bad replay file: " + err.Error()
			}
			return cs.run()
		},
	})
}
