package checks

import (
	"fmt"
	"image"
	"math"
	"sort"
	"strings"
	"sync/atomic"

	webp "github.com/deepteams/webp"
	"github.com/deepteams/webp/internal/lossy"
	"github.com/deepteams/webp/internal/zzverif/arb"
	"github.com/deepteams/webp/internal/zzverif/choice"
	"github.com/deepteams/webp/internal/zzverif/fw"
	"github.com/deepteams/webp/internal/zzverif/imgs"
	"github.com/deepteams/webp/internal/zzverif/refdec"
	"github.com/deepteams/webp/internal/zzverif/riffwalk"
)

// C02 — every successful Encode emits a conformant, self-describing file.

// optField is one EncoderOptions field (or coupled group) with its menu of
// values; index 0 is the default (nothing changed).
type optField struct {
	name string
	vals []string // rendered values, vals[0] = "default"
	set  func(o *webp.EncoderOptions, i int)
}

func intField(name string, vals []int, set func(o *webp.EncoderOptions, v int)) optField {
	f := optField{name: name, vals: []string{"default"}}
	for _, v := range vals {
		f.vals = append(f.vals, fmt.Sprint(v))
	}
	f.set = func(o *webp.EncoderOptions, i int) { set(o, vals[i-1]) }
	return f
}

func blob(n int, tag byte) []byte {
	b := make([]byte, n)
	for i := range b {
		b[i] = tag + byte(i*7)
	}
	return b
}

// c02Fields: valid values only (every resulting option set must be accepted).
var c02Fields = []optField{
	{"Lossless", []string{"default", "true"}, func(o *webp.EncoderOptions, i int) { o.Lossless = true }},
	intField("Quality", []int{0, 1, 50, 100}, func(o *webp.EncoderOptions, v int) { o.Quality = float32(v) }),
	intField("Method", []int{0, 1, 2, 3, 5, 6}, func(o *webp.EncoderOptions, v int) { o.Method = v }),
	{"Preset", []string{"default", "picture", "photo", "drawing", "icon", "text"}, func(o *webp.EncoderOptions, i int) {
		p := webp.OptionsForPreset(webp.Preset(i), o.Quality)
		p.Lossless, p.Method = o.Lossless, o.Method
		*o = *p
	}},
	intField("Segments", []int{1, 2, 3, 4}, func(o *webp.EncoderOptions, v int) { o.Segments = v }),
	intField("Partitions", []int{1, 2, 3}, func(o *webp.EncoderOptions, v int) { o.Partitions = v }),
	intField("Pass", []int{2, 6, 10}, func(o *webp.EncoderOptions, v int) { o.Pass = v }),
	intField("FilterStrength", []int{0, 1, 100}, func(o *webp.EncoderOptions, v int) { o.FilterStrength = v }),
	intField("FilterSharpness", []int{4, 7}, func(o *webp.EncoderOptions, v int) { o.FilterSharpness = v }),
	intField("FilterType", []int{0, 1}, func(o *webp.EncoderOptions, v int) { o.FilterType = v }),
	intField("SNSStrength", []int{0, 100}, func(o *webp.EncoderOptions, v int) { o.SNSStrength = v }),
	intField("Preprocessing", []int{1, 2, 3}, func(o *webp.EncoderOptions, v int) { o.Preprocessing = v }),
	{"QMinMax", []string{"default", "0-0", "0-100", "30-60", "100-100"}, func(o *webp.EncoderOptions, i int) {
		p := [][2]int{{0, 0}, {0, 100}, {30, 60}, {100, 100}}[i-1]
		o.QMin, o.QMax = p[0], p[1]
	}},
	intField("TargetSize", []int{200, 5000}, func(o *webp.EncoderOptions, v int) { o.TargetSize = v }),
	intField("TargetPSNR", []int{30, 45}, func(o *webp.EncoderOptions, v int) { o.TargetPSNR = float32(v) }),
	{"UseSharpYUV", []string{"default", "true"}, func(o *webp.EncoderOptions, i int) { o.UseSharpYUV = true }},
	{"Exact", []string{"default", "true"}, func(o *webp.EncoderOptions, i int) { o.Exact = true }},
	intField("AlphaCompression", []int{0, 1}, func(o *webp.EncoderOptions, v int) { o.AlphaCompression = v }),
	intField("AlphaFiltering", []int{0, 1, 2}, func(o *webp.EncoderOptions, v int) { o.AlphaFiltering = v }),
	intField("AlphaQuality", []int{0, 50, 99, 100}, func(o *webp.EncoderOptions, v int) { o.AlphaQuality = v }),
	{"Metadata", []string{"default", "ICC3", "EXIF4", "XMP5", "ICC+EXIF", "ICC+XMP", "EXIF+XMP", "all-odd", "all-even"}, func(o *webp.EncoderOptions, i int) {
		switch i {
		case 1:
			o.ICC = blob(3, 1)
		case 2:
			o.EXIF = blob(4, 2)
		case 3:
			o.XMP = blob(5, 3)
		case 4:
			o.ICC, o.EXIF = blob(7, 1), blob(2, 2)
		case 5:
			o.ICC, o.XMP = blob(2, 1), blob(9, 3)
		case 6:
			o.EXIF, o.XMP = blob(1, 2), blob(1, 3)
		case 7:
			o.ICC, o.EXIF, o.XMP = blob(5, 1), blob(3, 2), blob(1, 3)
		case 8:
			o.ICC, o.EXIF, o.XMP = blob(6, 1), blob(4, 2), blob(2, 3)
		}
	}},
}

type c02Img struct {
	W, H           int
	Content, Alpha string
}

var c02Images = []c02Img{
	{1, 1, "flat", "opaque"}, {16, 16, "noise", "opaque"}, {17, 17, "gradient", "binary"}, {33, 7, "c4", "agradient"},
	{64, 48, "noise", "opaque"}, {100, 3, "gradient", "opaque"}, {16, 16, "c4", "binary"}, {17, 17, "noise", "anoise"},
	{1, 1, "flat", "transparent"}, {33, 7, "noise", "few"}, {64, 48, "gradient", "agradient"}, {5, 40, "c16", "opaque"},
	{40, 30, "noise", "late"}, {7, 5, "noise", "lastpx"},
	// several prefix-code groups on tile grids with an incomplete last row / column group
	{64, 192, "bandsH", "binary"}, {48, 16, "bandsV", "binary"},
}

// c02Views: the same kinds of picture handed over as views whose bounds do not start at (0,0)
// ("@" + one of C19's placements): what the file declares must be the picture's size, not where
// it was stored. (C02 only; the other checks that borrow c02Images build their own storage forms.)
var c02Views = []c02Img{{17, 17, "noise", "anoise@sub35"}, {33, 7, "c4", "opaque@negorigin"}, {16, 16, "noise", "binary@genericSub"},
	// 64 macroblocks of which exactly one is skipped (the second of two adjacent flat blocks): the skip probability sits in its top range
	// (251 of 255), where a writer may decide not to code skip flags at all
	{128, 128, "noiseflat2", "opaque"}}

type c02Case struct {
	Img  c02Img
	Dev  map[string]int // field name -> menu index (non-default picks)
	Seed int64
}

func (cs *c02Case) opts() *webp.EncoderOptions {
	o := webp.DefaultOptions()
	// apply in the fixed field order so that coupled fields behave deterministically
	for _, f := range c02Fields {
		if i, ok := cs.Dev[f.name]; ok && i > 0 {
			f.set(o, i)
		}
	}
	return o
}

func devString(dev map[string]int, fields []optField) string {
	var parts []string
	for _, f := range fields {
		if i, ok := dev[f.name]; ok && i > 0 {
			parts = append(parts, f.name+"="+f.vals[i])
		}
	}
	sort.Strings(parts)
	if len(parts) == 0 {
		return "defaults"
	}
	return strings.Join(parts, ",")
}

func (cs *c02Case) key() string {
	return fmt.Sprintf("encode %dx%d %s/%s opts{%s}", cs.Img.W, cs.Img.H, cs.Img.Content, cs.Img.Alpha, devString(cs.Dev, c02Fields))
}

func hasNonOpaque(img *image.NRGBA) bool {
	for i := 3; i < len(img.Pix); i += 4 {
		if img.Pix[i] != 255 {
			return true
		}
	}
	return false
}

// validateEncoded is the oracle shared by C02, C15 and C20: data must be
// exactly one conformant file that describes src and decodes, by this package
// and by the reference stack, to the same picture.
func validateEncoded(data []byte, src *image.NRGBA, o *webp.EncoderOptions) string {
	f, err := riffwalk.Parse(data)
	if err != nil {
		return "not a parseable RIFF/WebP file: " + err.Error()
	}
	if len(f.Problems) > 0 {
		return "container not conformant: " + strings.Join(f.Problems, "; ")
	}
	if f.Animated || len(f.Frames) != 1 {
		return fmt.Sprintf("expected one still image, found %d frame(s), animated=%v", len(f.Frames), f.Animated)
	}
	fr := &f.Frames[0]
	if p := fr.BitstreamProblems(); len(p) > 0 {
		return "bitstream header: " + strings.Join(p, "; ")
	}
	w, h := src.Rect.Dx(), src.Rect.Dy()
	if fr.BitW() != w || fr.BitH() != h {
		return fmt.Sprintf("bitstream declares %dx%d, source is %dx%d", fr.BitW(), fr.BitH(), w, h)
	}
	if f.CanvasW != w || f.CanvasH != h {
		return fmt.Sprintf("canvas %dx%d, source is %dx%d", f.CanvasW, f.CanvasH, w, h)
	}
	if o != nil && fr.Lossless != o.Lossless {
		return fmt.Sprintf("Lossless=%v but the image chunk is lossless=%v", o.Lossless, fr.Lossless)
	}
	if !fr.Lossless {
		if fr.VP8.XScale != 0 || fr.VP8.YScale != 0 {
			return "VP8 header requests upscaling"
		}
		if o != nil {
			want := 1 << uint(o.Partitions)
			if fr.VP8.NumPartitions != want {
				return fmt.Sprintf("frame header declares %d token partitions, Partitions=%d asks for %d", fr.VP8.NumPartitions, o.Partitions, want)
			}
		}
	}
	srcAlpha := hasNonOpaque(src)
	signalled := fr.HasALPH || fr.Lossless && fr.VP8L.Alpha
	if f.HasVP8X && (f.Flags&riffwalk.FlagAlpha != 0) != signalled {
		return fmt.Sprintf("VP8X alpha flag %v but frame alpha signalled %v", f.Flags&riffwalk.FlagAlpha != 0, signalled)
	}
	if srcAlpha && !signalled {
		return "source has non-opaque pixels but the file declares no alpha"
	}
	if !srcAlpha && signalled {
		return "source is fully opaque but the file declares alpha"
	}
	if !fr.Lossless && fr.HasALPH && !f.HasVP8X {
		return "ALPH without VP8X"
	}
	// decode with this package
	got, derr, p := decode(data)
	if p != "" {
		return "Decode panicked on Encode's output: " + first(p)
	}
	if derr != nil {
		return "Encode reported success for a stream this package cannot decode: " + derr.Error()
	}
	if b := got.Bounds(); b.Dx() != w || b.Dy() != h {
		return fmt.Sprintf("decoded size %dx%d, source %dx%d", b.Dx(), b.Dy(), w, h)
	}
	rd, rerr := refdec.DecodeFrame(fr)
	if rerr != nil {
		return "independent decoder rejects the file: " + rerr.Error()
	}
	// a second independent implementation, when present: libwebp must accept the file too
	if ok, aw, ah, _, aerr := arb.RGBA(data); aerr == nil && (!ok || aw != w || ah != h) {
		return fmt.Sprintf("libwebp rejects the file Encode reported success for (accepted=%v, %dx%d)", ok, aw, ah)
	}
	if fr.Lossless {
		want := rd.NRGBA
		if n, px := imgs.Diff(want, got, false); n != 0 {
			return fmt.Sprintf("this package and the independent decoder disagree on %d pixels, first %s", n, px)
		}
		return ""
	}
	// lossy: compare planes
	var y, cb, cr []byte
	var ys, cs int
	if yc, ok := got.(*image.YCbCr); ok && rd.Alpha == nil {
		y, cb, cr, ys, cs = yc.Y, yc.Cb, yc.Cr, yc.YStride, yc.CStride
		if yc.SubsampleRatio != image.YCbCrSubsampleRatio420 {
			return "decoded YCbCr is not 4:2:0"
		}
	} else {
		if rd.Alpha == nil {
			return fmt.Sprintf("file has no alpha but Decode returned %T", got)
		}
		dec, dw, dh, py, pys, pu, pv, puvs, e := lossy.DecodeFrame(fr.Bitstream)
		if e != nil {
			return "lossy.DecodeFrame: " + e.Error()
		}
		if dw != w || dh != h {
			lossy.ReleaseDecoder(dec)
			return "lossy.DecodeFrame size mismatch"
		}
		y, cb, cr, ys, cs = append([]byte(nil), py...), append([]byte(nil), pu...), append([]byte(nil), pv...), pys, puvs
		lossy.ReleaseDecoder(dec)
		ga, bad := alphaOf(got, w, h)
		if bad != "" {
			return bad
		}
		if d := cmpPlane(rd.Alpha, ga, w); d != "" {
			return "alpha plane differs between this package and the reference ALPH decoder: " + d
		}
	}
	if d := cmpPlanes(rd.YCbCr, y, cb, cr, ys, cs, w, h); d != "" {
		// arbitration (DESIGN.md 2.5): libwebp decides who is right
		if ok, aw, ah, ay, au, av, aerr := arb.YUV(data); aerr == nil && ok && aw == w && ah == h {
			cw := (w + 1) / 2
			if cmpPlanes(rd.YCbCr, ay, au, av, w, cw, w, h) == "" {
				return "this package and the independent VP8 decoder disagree (libwebp sides with the independent decoder): " + d
			}
			if cmpRaw(ay, au, av, w, cw, y, cb, cr, ys, cs, w, h) {
				oracleDisagreements.Add(1)
				return "" // the reference is wrong here: dropped, counted
			}
			return "this package, the independent VP8 decoder and libwebp all disagree: " + d
		}
		return "this package and the independent VP8 decoder disagree (no arbiter available): " + d
	}
	return ""
}

var oracleDisagreements atomic.Int64

func cmpRaw(ay, au, av []byte, as, acs int, y, cb, cr []byte, ys, cs, w, h int) bool {
	for j := 0; j < h; j++ {
		for i := 0; i < w; i++ {
			if ay[j*as+i] != y[j*ys+i] {
				return false
			}
		}
	}
	for j := 0; j < (h+1)/2; j++ {
		for i := 0; i < (w+1)/2; i++ {
			if au[j*acs+i] != cb[j*cs+i] || av[j*acs+i] != cr[j*cs+i] {
				return false
			}
		}
	}
	return true
}

// cmpPlanes compares the reference YCbCr with raw planes (cropped to w x h).
func cmpPlanes(ref *image.YCbCr, y, cb, cr []byte, ys, cs, w, h int) string {
	for j := 0; j < h; j++ {
		for i := 0; i < w; i++ {
			a := ref.Y[ref.YOffset(ref.Rect.Min.X+i, ref.Rect.Min.Y+j)]
			if b := y[j*ys+i]; a != b {
				return fmt.Sprintf("Y(%d,%d) = %d, reference %d", i, j, b, a)
			}
		}
	}
	cw, ch := (w+1)/2, (h+1)/2
	for j := 0; j < ch; j++ {
		for i := 0; i < cw; i++ {
			o := ref.COffset(ref.Rect.Min.X+2*i, ref.Rect.Min.Y+2*j)
			if a, b := ref.Cb[o], cb[j*cs+i]; a != b {
				return fmt.Sprintf("Cb(%d,%d) = %d, reference %d", i, j, b, a)
			}
			if a, b := ref.Cr[o], cr[j*cs+i]; a != b {
				return fmt.Sprintf("Cr(%d,%d) = %d, reference %d", i, j, b, a)
			}
		}
	}
	return ""
}

func (cs *c02Case) run() string {
	alpha, how, _ := strings.Cut(cs.Img.Alpha, "@")
	src := imgs.Make(cs.Img.W, cs.Img.H, cs.Img.Content, alpha, cs.Seed)
	var given image.Image = src
	if how != "" {
		given, _ = place(src, how)
	}
	o := cs.opts()
	data, err, p := encode(given, o)
	if p != "" {
		return "Encode panicked: " + first(p)
	}
	if err != nil {
		return "Encode rejected a documented-valid option set: " + err.Error()
	}
	return validateEncoded(data, src, o)
}

var _ = math.Abs

func init() {
	registerCases[c02Case]("C02", "exploration",
		"image alphabet (16 pictures: sizes 1x1..100x3, opaque/binary/graded/noisy/fully transparent alpha, flat..noise) x EncoderOptions with at most D fields (coupled groups count once) away from DefaultOptions(), D=2 quick / 3 thorough, each field over its menu of valid values (21 fields, 66 non-default values), plus every number of distinct colours 1..260 (lossless) and of alpha levels 1..256 (lossy) on a 20x20 noise layout x Quality{default,0,1,50,100} x Method{default,0,1,2,3,5,6}; oracle = strict RIFF/VP8/VP8L validator + agreement of this package's decoder with the independent decoder",
		[]string{"worker count pinned to 1, pools never reuse", "independent decoder: vendored golang.org/x/image vp8/vp8l + reference ALPH decoder", "validator written from the container specification"},
		func(e *fw.Env) int {
			if e.Quick() {
				return 2
			}
			return 3
		},
		func(e *fw.Env) func(c *choice.Ctx) caseI {
			images := append(append([]c02Img{}, c02Images...), c02Views...)
			if !e.Quick() {
				images = append(append([]c02Img{}, c02Images[:8]...), c02Views[0]) // bound 3 on a reduced picture set
			}
			return func(c *choice.Ctx) caseI {
				cs := &c02Case{Seed: e.Seed, Dev: map[string]int{}}
				if c.PickFree(2, "part") == 1 {
					// alphabet-size sweep: every number of distinct colours 1..260 (lossless) and every number
					// of alpha levels 1..256 (lossy + compressed alpha plane) on a 20x20 noise layout: the number
					// of used symbols shapes every code-length table the encoder writes
					n := 1 + c.PickFree(260, "symbols")
					if c.PickFree(2, "kind") == 0 {
						cs.Img = c02Img{20, 20, fmt.Sprintf("k%d", n), "opaque"}
						cs.Dev["Lossless"] = 1
					} else {
						if n > 256 {
							n = 256
						}
						cs.Img = c02Img{20, 20, "flat", fmt.Sprintf("lv%d", n)}
					}
					for _, name := range []string{"Quality", "Method"} {
						for _, f := range c02Fields {
							if f.name == name {
								if i := c.PickFree(len(f.vals), name); i > 0 {
									cs.Dev[name] = i
								}
							}
						}
					}
					return cs
				}
				cs.Img = images[c.PickFree(len(images), "img")]
				for _, f := range c02Fields {
					if i := c.Pick(len(f.vals), f.name); i > 0 {
						cs.Dev[f.name] = i
					}
				}
				return cs
			}
		})
}
