package checks

import (
	"bytes"
	"fmt"
	"image"
	"image/color"

	webp "github.com/deepteams/webp"
	"github.com/deepteams/webp/internal/zzverif/choice"
	"github.com/deepteams/webp/internal/zzverif/fw"
	"github.com/deepteams/webp/internal/zzverif/imgs"
)

// C19 — Encode depends on the picture, not on how the pixels are stored.

type c19Case struct {
	W, H      int
	Content   string
	Alpha     string
	Placement string
	Lossless  bool
	Exact     bool
	Sharp     bool
	Prep      int
	M         int
	Seed      int64
}

var c19Placements = []string{"sub35", "negorigin", "stride", "poison00", "poisonFF", "generic", "genericRGBA", "genericNRGBA64", "longpix", "subodd",
	// the same wrappers and *image.RGBA over pictures whose bounds do not start at (0,0)
	"genericSub", "genericNeg", "genericRGBASub", "genericNRGBA64Neg", "rgbaSub", "rgbaNeg"}

type atNRGBA struct{ img *image.NRGBA }

func (g atNRGBA) ColorModel() color.Model { return color.NRGBAModel }
func (g atNRGBA) Bounds() image.Rectangle { return g.img.Bounds() }
func (g atNRGBA) At(x, y int) color.Color { return g.img.NRGBAAt(x, y) }

type atRGBA struct{ img *image.NRGBA }

func (g atRGBA) ColorModel() color.Model { return color.RGBAModel }
func (g atRGBA) Bounds() image.Rectangle { return g.img.Bounds() }
func (g atRGBA) At(x, y int) color.Color {
	c := g.img.NRGBAAt(x, y)
	return color.RGBA{c.R, c.G, c.B, 255} // used for opaque pictures only
}

type atNRGBA64 struct{ img *image.NRGBA }

func (g atNRGBA64) ColorModel() color.Model { return color.NRGBA64Model }
func (g atNRGBA64) Bounds() image.Rectangle { return g.img.Bounds() }
func (g atNRGBA64) At(x, y int) color.Color {
	c := g.img.NRGBAAt(x, y)
	return color.NRGBA64{uint16(c.R) * 257, uint16(c.G) * 257, uint16(c.B) * 257, uint16(c.A) * 257}
}

// place presents src (at origin) in the named storage form.  parent is the
// buffer whose bytes must not change (nil if none beyond the image itself).
func place(src *image.NRGBA, how string) (img image.Image, parent *image.NRGBA) {
	w, h := src.Rect.Dx(), src.Rect.Dy()
	embed := func(pw, ph, ox, oy int, poison byte, fill bool) (*image.NRGBA, *image.NRGBA) {
		par := image.NewNRGBA(image.Rect(0, 0, pw, ph))
		if fill {
			for i := range par.Pix {
				par.Pix[i] = poison
			}
		} else {
			for i := range par.Pix {
				par.Pix[i] = byte(i*31 + 7)
			}
		}
		for y := 0; y < h; y++ {
			copy(par.Pix[(oy+y)*par.Stride+ox*4:], src.Pix[y*src.Stride:y*src.Stride+w*4])
		}
		return par.SubImage(image.Rect(ox, oy, ox+w, oy+h)).(*image.NRGBA), par
	}
	switch how {
	case "sub35":
		return first2(embed(w+8, h+11, 3, 5, 0, false))
	case "subodd":
		return first2(embed(w+1, h+1, 1, 1, 0, false))
	case "poison00":
		return first2(embed(w+8, h+11, 3, 5, 0x00, true))
	case "poisonFF":
		return first2(embed(w+8, h+11, 3, 5, 0xff, true))
	case "negorigin":
		d := image.NewNRGBA(image.Rect(-7, -3, -7+w, -3+h))
		copy(d.Pix, src.Pix)
		return d, d
	case "stride":
		d := &image.NRGBA{Pix: make([]byte, (w*4+12)*h), Stride: w*4 + 12, Rect: image.Rect(0, 0, w, h)}
		for i := range d.Pix {
			d.Pix[i] = 0xA5
		}
		for y := 0; y < h; y++ {
			copy(d.Pix[y*d.Stride:], src.Pix[y*src.Stride:y*src.Stride+w*4])
		}
		return d, d
	case "longpix":
		d := &image.NRGBA{Pix: make([]byte, w*4*h+64), Stride: w * 4, Rect: image.Rect(0, 0, w, h)}
		for i := range d.Pix {
			d.Pix[i] = 0x5A
		}
		copy(d.Pix, src.Pix[:w*4*h])
		return d, d
	case "genericSub":
		v, par := embed(w+8, h+11, 3, 5, 0, false)
		return atNRGBA{v}, par
	case "genericNeg":
		d := image.NewNRGBA(image.Rect(-7, -3, -7+w, -3+h))
		copy(d.Pix, src.Pix)
		return atNRGBA{d}, d
	case "genericRGBASub":
		v, par := embed(w+8, h+11, 3, 5, 0xff, true)
		return atRGBA{v}, par
	case "genericNRGBA64Neg":
		d := image.NewNRGBA(image.Rect(-7, -3, -7+w, -3+h))
		copy(d.Pix, src.Pix)
		return atNRGBA64{d}, d
	case "rgbaSub", "rgbaNeg":
		// *image.RGBA (opaque pictures only: premultiplied = straight) as a view into a
		// larger buffer / at a negative origin
		var d *image.RGBA
		if how == "rgbaSub" {
			par := image.NewRGBA(image.Rect(0, 0, w+8, h+11))
			for i := range par.Pix {
				par.Pix[i] = byte(i*29 + 3)
			}
			d = par.SubImage(image.Rect(3, 5, 3+w, 5+h)).(*image.RGBA)
		} else {
			d = image.NewRGBA(image.Rect(-7, -3, -7+w, -3+h))
		}
		for y := 0; y < h; y++ {
			for x := 0; x < w; x++ {
				c := src.NRGBAAt(x, y)
				d.SetRGBA(d.Rect.Min.X+x, d.Rect.Min.Y+y, color.RGBA{c.R, c.G, c.B, 255})
			}
		}
		return d, nil
	case "generic":
		return atNRGBA{src}, src
	case "genericRGBA":
		return atRGBA{src}, src
	case "genericNRGBA64":
		return atNRGBA64{src}, src
	}
	panic(how)
}

func first2(a, b *image.NRGBA) (image.Image, *image.NRGBA) { return a, b }

func (cs *c19Case) key() string {
	return fmt.Sprintf("storage %dx%d %s/%s placement=%s lossless=%v exact=%v sharp=%v prep=%d m=%d", cs.W, cs.H, cs.Content, cs.Alpha, cs.Placement, cs.Lossless, cs.Exact, cs.Sharp, cs.Prep, cs.M)
}

func (cs *c19Case) opts() *webp.EncoderOptions {
	o := webp.DefaultOptions()
	o.Lossless = cs.Lossless
	o.Exact = cs.Exact
	o.UseSharpYUV = cs.Sharp
	o.Preprocessing = cs.Prep
	o.Method = cs.M
	return o
}

func (cs *c19Case) run() string {
	switch cs.Placement {
	case "genericRGBA", "genericNRGBA64", "genericRGBASub", "genericNRGBA64Neg", "rgbaSub", "rgbaNeg":
		if cs.Alpha != "opaque" {
			// only for opaque pictures are these "the same colours" exactly (DESIGN.md C19 (8))
			return ""
		}
	}
	if false {
		// only for opaque pictures are these "the same colours" exactly (DESIGN.md C19 (8))
		return ""
	}
	src := imgs.Make(cs.W, cs.H, cs.Content, cs.Alpha, cs.Seed)
	srcCopy := append([]byte(nil), src.Pix...)
	refBytes, err, p := encode(src, cs.opts())
	if p != "" {
		return "Encode panicked on the plain NRGBA: " + first(p)
	}
	if err != nil {
		return "Encode failed on the plain NRGBA: " + err.Error()
	}
	if !bytes.Equal(src.Pix, srcCopy) {
		return "Encode modified the caller's *image.NRGBA (plain placement)"
	}
	img, parent := place(src, cs.Placement)
	var before []byte
	if parent != nil {
		before = append([]byte(nil), parent.Pix...)
	}
	got, err, p := encode(img, cs.opts())
	if p != "" {
		return "Encode panicked: " + first(p)
	}
	if err != nil {
		return "Encode failed: " + err.Error()
	}
	if parent != nil && !bytes.Equal(parent.Pix, before) {
		return "Encode modified the caller's pixel buffer"
	}
	if !bytes.Equal(got, refBytes) {
		return fmt.Sprintf("output differs from the plain *image.NRGBA encoding (%d vs %d bytes, digests %s vs %s)", len(got), len(refBytes), fw.Digest(got), fw.Digest(refBytes))
	}
	return ""
}

func init() {
	registerCases[c19Case]("C19", "exploration",
		"full product of picture (size x content x alpha class) x storage placement (sub-image, odd sub-image, negative origin, stride padding, parent poisoned 0x00/0xFF, generic NRGBA/RGBA/NRGBA64 wrappers and *image.RGBA at the origin, as sub-image views and at negative origins, over-long Pix) x codec x Exact x sharp YUV x dithering x Method; every placement's bytes are compared with the plain NRGBA-at-origin encoding and the caller's buffer is checksummed",
		[]string{"worker count pinned to 1, pools never reuse"},
		nil,
		func(e *fw.Env) func(c *choice.Ctx) caseI {
			sizes := [][2]int{{1, 1}, {7, 3}, {16, 16}, {17, 17}, {40, 24}}
			methods := []int{4, 0, 6}
			if e.Quick() {
				methods = []int{4}
			}
			return func(c *choice.Ctx) caseI {
				cs := &c19Case{Seed: e.Seed}
				s := sizes[c.PickFree(len(sizes), "size")]
				cs.W, cs.H = s[0], s[1]
				cs.Content = []string{"noise", "c4", "gradient"}[c.PickFree(3, "content")]
				cs.Alpha = []string{"opaque", "binary", "agradient", "semi"}[c.PickFree(4, "alpha")]
				cs.Placement = c19Placements[c.PickFree(len(c19Placements), "placement")]
				cs.Lossless = c.PickFree(2, "lossless") == 1
				cs.Exact = c.PickFree(2, "exact") == 1
				cs.M = methods[c.PickFree(len(methods), "method")]
				if !cs.Lossless {
					cs.Sharp = c.PickFree(2, "sharp") == 1
					cs.Prep = []int{0, 2}[c.PickFree(2, "prep")]
				}
				return cs
			}
		})
}
