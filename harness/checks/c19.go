package checks

import (
	"bytes"
	"fmt"
	"image"
	"image/color"

	webp "github.com/deepteams/webp"
	"github.com/deepteams/webp/internal/zzverif/choice"
	"github.com/deepteams/webp/internal/zzverif/fw"
	"github.com/deepteams/webp/internal/zzverif/imgs"
)

// C19 — Encode depends on the picture, not on how the pixels are stored.

type c19Case struct {
	W, H      int
	Content   string
	Alpha     string
	Placement string
	Lossless  bool
	Exact     bool
	Sharp     bool
	Prep      int
	M         int
	Seed      int64
	// second family: the picture lives in another concrete standard-library image type
	// (a view at OX,OY into a larger parent of that type); see typedView
	Typed  string `json:",omitempty"`
	OX, OY int    `json:",omitempty"`
}

var c19Placements = []string{"sub35", "negorigin", "stride", "poison00", "poisonFF", "generic", "genericRGBA", "genericNRGBA64", "longpix", "subodd",
	// the same wrappers and *image.RGBA over pictures whose bounds do not start at (0,0)
	"genericSub", "genericNeg", "genericRGBASub", "genericNRGBA64Neg", "rgbaSub", "rgbaNeg"}

type atNRGBA struct{ img *image.NRGBA }

func (g atNRGBA) ColorModel() color.Model { return color.NRGBAModel }
func (g atNRGBA) Bounds() image.Rectangle { return g.img.Bounds() }
func (g atNRGBA) At(x, y int) color.Color { return g.img.NRGBAAt(x, y) }

type atRGBA struct{ img *image.NRGBA }

func (g atRGBA) ColorModel() color.Model { return color.RGBAModel }
func (g atRGBA) Bounds() image.Rectangle { return g.img.Bounds() }
func (g atRGBA) At(x, y int) color.Color {
	c := g.img.NRGBAAt(x, y)
	return color.RGBA{c.R, c.G, c.B, 255} // used for opaque pictures only
}

type atNRGBA64 struct{ img *image.NRGBA }

func (g atNRGBA64) ColorModel() color.Model { return color.NRGBA64Model }
func (g atNRGBA64) Bounds() image.Rectangle { return g.img.Bounds() }
func (g atNRGBA64) At(x, y int) color.Color {
	c := g.img.NRGBAAt(x, y)
	return color.NRGBA64{uint16(c.R) * 257, uint16(c.G) * 257, uint16(c.B) * 257, uint16(c.A) * 257}
}

// place presents src (at origin) in the named storage form.  parent is the
// buffer whose bytes must not change (nil if none beyond the image itself).
func place(src *image.NRGBA, how string) (img image.Image, parent *image.NRGBA) {
	w, h := src.Rect.Dx(), src.Rect.Dy()
	embed := func(pw, ph, ox, oy int, poison byte, fill bool) (*image.NRGBA, *image.NRGBA) {
		par := image.NewNRGBA(image.Rect(0, 0, pw, ph))
		if fill {
			for i := range par.Pix {
				par.Pix[i] = poison
			}
		} else {
			for i := range par.Pix {
				par.Pix[i] = byte(i*31 + 7)
			}
		}
		for y := 0; y < h; y++ {
			copy(par.Pix[(oy+y)*par.Stride+ox*4:], src.Pix[y*src.Stride:y*src.Stride+w*4])
		}
		return par.SubImage(image.Rect(ox, oy, ox+w, oy+h)).(*image.NRGBA), par
	}
	switch how {
	case "sub35":
		return first2(embed(w+8, h+11, 3, 5, 0, false))
	case "subodd":
		return first2(embed(w+1, h+1, 1, 1, 0, false))
	case "poison00":
		return first2(embed(w+8, h+11, 3, 5, 0x00, true))
	case "poisonFF":
		return first2(embed(w+8, h+11, 3, 5, 0xff, true))
	case "negorigin":
		d := image.NewNRGBA(image.Rect(-7, -3, -7+w, -3+h))
		copy(d.Pix, src.Pix)
		return d, d
	case "stride":
		d := &image.NRGBA{Pix: make([]byte, (w*4+12)*h), Stride: w*4 + 12, Rect: image.Rect(0, 0, w, h)}
		for i := range d.Pix {
			d.Pix[i] = 0xA5
		}
		for y := 0; y < h; y++ {
			copy(d.Pix[y*d.Stride:], src.Pix[y*src.Stride:y*src.Stride+w*4])
		}
		return d, d
	case "longpix":
		d := &image.NRGBA{Pix: make([]byte, w*4*h+64), Stride: w * 4, Rect: image.Rect(0, 0, w, h)}
		for i := range d.Pix {
			d.Pix[i] = 0x5A
		}
		copy(d.Pix, src.Pix[:w*4*h])
		return d, d
	case "genericSub":
		v, par := embed(w+8, h+11, 3, 5, 0, false)
		return atNRGBA{v}, par
	case "genericNeg":
		d := image.NewNRGBA(image.Rect(-7, -3, -7+w, -3+h))
		copy(d.Pix, src.Pix)
		return atNRGBA{d}, d
	case "genericRGBASub":
		v, par := embed(w+8, h+11, 3, 5, 0xff, true)
		return atRGBA{v}, par
	case "genericNRGBA64Neg":
		d := image.NewNRGBA(image.Rect(-7, -3, -7+w, -3+h))
		copy(d.Pix, src.Pix)
		return atNRGBA64{d}, d
	case "rgbaSub", "rgbaNeg":
		// *image.RGBA (opaque pictures only: premultiplied = straight) as a view into a
		// larger buffer / at a negative origin
		var d *image.RGBA
		if how == "rgbaSub" {
			par := image.NewRGBA(image.Rect(0, 0, w+8, h+11))
			for i := range par.Pix {
				par.Pix[i] = byte(i*29 + 3)
			}
			d = par.SubImage(image.Rect(3, 5, 3+w, 5+h)).(*image.RGBA)
		} else {
			d = image.NewRGBA(image.Rect(-7, -3, -7+w, -3+h))
		}
		for y := 0; y < h; y++ {
			for x := 0; x < w; x++ {
				c := src.NRGBAAt(x, y)
				d.SetRGBA(d.Rect.Min.X+x, d.Rect.Min.Y+y, color.RGBA{c.R, c.G, c.B, 255})
			}
		}
		return d, nil
	case "generic":
		return atNRGBA{src}, src
	case "genericRGBA":
		return atRGBA{src}, src
	case "genericNRGBA64":
		return atNRGBA64{src}, src
	}
	panic(how)
}

func first2(a, b *image.NRGBA) (image.Image, *image.NRGBA) { return a, b }

func (cs *c19Case) key() string {
	if cs.Typed != "" {
		return fmt.Sprintf("storage %dx%d type=%s origin=(%d,%d) lossless=%v sharp=%v prep=%d m=%d", cs.W, cs.H, cs.Typed, cs.OX, cs.OY, cs.Lossless, cs.Sharp, cs.Prep, cs.M)
	}
	return fmt.Sprintf("storage %dx%d %s/%s placement=%s lossless=%v exact=%v sharp=%v prep=%d m=%d", cs.W, cs.H, cs.Content, cs.Alpha, cs.Placement, cs.Lossless, cs.Exact, cs.Sharp, cs.Prep, cs.M)
}

func (cs *c19Case) opts() *webp.EncoderOptions {
	o := webp.DefaultOptions()
	o.Lossless = cs.Lossless
	o.Exact = cs.Exact
	o.UseSharpYUV = cs.Sharp
	o.Preprocessing = cs.Prep
	o.Method = cs.M
	return o
}

func (cs *c19Case) run() string {
	if cs.Typed != "" {
		return cs.runTyped()
	}
	switch cs.Placement {
	case "genericRGBA", "genericNRGBA64", "genericRGBASub", "genericNRGBA64Neg", "rgbaSub", "rgbaNeg":
		if cs.Alpha != "opaque" {
			// only for opaque pictures are these "the same colours" exactly (DESIGN.md C19 (8))
			return ""
		}
	}
	if false {
		// only for opaque pictures are these "the same colours" exactly (DESIGN.md C19 (8))
		return ""
	}
	src := imgs.Make(cs.W, cs.H, cs.Content, cs.Alpha, cs.Seed)
	srcCopy := append([]byte(nil), src.Pix...)
	refBytes, err, p := encode(src, cs.opts())
	if p != "" {
		return "Encode panicked on the plain NRGBA: " + first(p)
	}
	if err != nil {
		return "Encode failed on the plain NRGBA: " + err.Error()
	}
	if !bytes.Equal(src.Pix, srcCopy) {
		return "Encode modified the caller's *image.NRGBA (plain placement)"
	}
	img, parent := place(src, cs.Placement)
	var before []byte
	if parent != nil {
		before = append([]byte(nil), parent.Pix...)
	}
	got, err, p := encode(img, cs.opts())
	if p != "" {
		return "Encode panicked: " + first(p)
	}
	if err != nil {
		return "Encode failed: " + err.Error()
	}
	if parent != nil && !bytes.Equal(parent.Pix, before) {
		return "Encode modified the caller's pixel buffer"
	}
	if !bytes.Equal(got, refBytes) {
		return fmt.Sprintf("output differs from the plain *image.NRGBA encoding (%d vs %d bytes, digests %s vs %s)", len(got), len(refBytes), fw.Digest(got), fw.Digest(refBytes))
	}
	return ""
}

func init() {
	registerCases[c19Case]("C19", "exploration",
		"full product of picture (size x content x alpha class) x storage placement (sub-image, odd sub-image, negative origin, stride padding, parent poisoned 0x00/0xFF, generic NRGBA/RGBA/NRGBA64 wrappers and *image.RGBA at the origin, as sub-image views and at negative origins, over-long Pix) x codec x Exact x sharp YUV x dithering x Method; every placement's bytes are compared with the plain NRGBA-at-origin encoding and the caller's buffer is checksummed",
		[]string{"worker count pinned to 1, pools never reuse"},
		nil,
		func(e *fw.Env) func(c *choice.Ctx) caseI {
			sizes := [][2]int{{1, 1}, {7, 3}, {16, 16}, {17, 17}, {40, 24}}
			methods := []int{4, 0, 6}
			if e.Quick() {
				methods = []int{4}
			}
			return func(c *choice.Ctx) caseI {
				cs := &c19Case{Seed: e.Seed}
				fam := c.PickFree(2, "family")
				s := sizes[c.PickFree(len(sizes), "size")]
				cs.W, cs.H = s[0], s[1]
				if fam == 1 {
					cs.Typed = c19Types[c.PickFree(len(c19Types), "type")]
					o := c19Origins[c.PickFree(len(c19Origins), "origin")]
					cs.OX, cs.OY = o[0], o[1]
					cs.Lossless = c.PickFree(2, "lossless") == 1
					cs.M = methods[c.PickFree(len(methods), "method")]
					if !cs.Lossless {
						cs.Sharp = c.PickFree(2, "sharp") == 1
						cs.Prep = []int{0, 2}[c.PickFree(2, "prep")]
					}
					return cs
				}
				cs.Content = []string{"noise", "c4", "gradient"}[c.PickFree(3, "content")]
				cs.Alpha = []string{"opaque", "binary", "agradient", "semi"}[c.PickFree(4, "alpha")]
				cs.Placement = c19Placements[c.PickFree(len(c19Placements), "placement")]
				cs.Lossless = c.PickFree(2, "lossless") == 1
				cs.Exact = c.PickFree(2, "exact") == 1
				cs.M = methods[c.PickFree(len(methods), "method")]
				if !cs.Lossless {
					cs.Sharp = c.PickFree(2, "sharp") == 1
					cs.Prep = []int{0, 2}[c.PickFree(2, "prep")]
				}
				return cs
			}
		})
}

// ---- second family: other concrete image types, as views into a larger parent ----
//
// The statement's "generic image.Image yielding the same colours": a picture held in an
// *image.YCbCr (every subsample ratio), *image.Gray, *image.Gray16, *image.Paletted,
// *image.NRGBA64, *image.RGBA64 or *image.CMYK - as a SubImage view at even, odd and
// off-chroma-grid origins, or allocated at a negative origin - must encode to the bytes
// of the plain *image.NRGBA at the origin that holds the same colours (read through At
// and color.NRGBAModel; all sample values are chosen so that this is exact), and to the
// bytes of a wrapper that hides the concrete type.  The parent's storage is digested
// before and after.  One input per importer shortcut a maintainer could add.

var c19Types = []string{"ycbcr444", "ycbcr422", "ycbcr420", "ycbcr440", "ycbcr411", "ycbcr410", "gray", "gray16", "paletted", "palettedA", "nrgba64", "rgba64", "cmyk"}

// origin (-7,-3) = allocated at a negative origin (no parent); the others are views
var c19Origins = [][2]int{{0, 0}, {1, 1}, {3, 5}, {2, 4}, {4, 8}, {-7, -3}, {1, 0}, {0, 1}}

type hideType struct{ image.Image }

func c19h(x, y, k int, seed int64) byte {
	v := uint32(x*7349+y*9151+k*977) ^ uint32(seed*2654435761)
	v ^= v >> 13
	v *= 0x5bd1e995
	v ^= v >> 15
	return byte(v)
}

// typedView builds the view and returns it with a function that digests the storage it
// is a window of.
func typedView(typ string, ox, oy, w, h int, seed int64) (image.Image, func() string) {
	var pr image.Rectangle
	if ox < 0 {
		pr = image.Rect(ox, oy, ox+w, oy+h)
	} else {
		pr = image.Rect(0, 0, ox+w+5, oy+h+3)
	}
	vr := image.Rect(ox, oy, ox+w, oy+h)
	// smooth-ish value with neighbour-to-neighbour variation
	val := func(x, y, k int) byte { return byte(int(c19h(x, y, k, seed))/2 + (x*5+y*3+k*40)&0x7f) }
	switch typ {
	case "ycbcr444", "ycbcr422", "ycbcr420", "ycbcr440", "ycbcr411", "ycbcr410":
		ratio := map[string]image.YCbCrSubsampleRatio{"ycbcr444": image.YCbCrSubsampleRatio444, "ycbcr422": image.YCbCrSubsampleRatio422, "ycbcr420": image.YCbCrSubsampleRatio420,
			"ycbcr440": image.YCbCrSubsampleRatio440, "ycbcr411": image.YCbCrSubsampleRatio411, "ycbcr410": image.YCbCrSubsampleRatio410}[typ]
		par := image.NewYCbCr(pr, ratio)
		for i := range par.Y {
			par.Y[i] = val(i%par.YStride, i/par.YStride, 0)
		}
		for i := range par.Cb {
			par.Cb[i] = val(i%par.CStride, i/par.CStride, 1)
			par.Cr[i] = val(i%par.CStride, i/par.CStride, 2)
		}
		return par.SubImage(vr), func() string { return fw.Digest(par.Y) + fw.Digest(par.Cb) + fw.Digest(par.Cr) }
	case "gray":
		par := image.NewGray(pr)
		for i := range par.Pix {
			par.Pix[i] = val(i%par.Stride, i/par.Stride, 0)
		}
		return par.SubImage(vr), func() string { return fw.Digest(par.Pix) }
	case "gray16":
		par := image.NewGray16(pr)
		for i := 0; i+1 < len(par.Pix); i += 2 {
			v := val((i%par.Stride)/2, i/par.Stride, 0)
			par.Pix[i], par.Pix[i+1] = v, v // v*257: exactly representable in 8 bits
		}
		return par.SubImage(vr), func() string { return fw.Digest(par.Pix) }
	case "paletted", "palettedA":
		pal := make(color.Palette, 0, 40)
		for i := 0; i < 40; i++ {
			a := byte(255)
			if typ == "palettedA" {
				a = []byte{255, 0, 128, 1, 254}[i%5]
			}
			pal = append(pal, color.NRGBA{byte(i * 6), byte(255 - i*5), byte(i * 37), a})
		}
		par := image.NewPaletted(pr, pal)
		for i := range par.Pix {
			par.Pix[i] = val(i%par.Stride, i/par.Stride, 0) % 40
		}
		return par.SubImage(vr), func() string { return fw.Digest(par.Pix) }
	case "nrgba64":
		par := image.NewNRGBA64(pr)
		for i := 0; i+1 < len(par.Pix); i += 2 {
			v := val((i%par.Stride)/2, i/par.Stride, 3)
			if (i/2)%4 == 3 && v < 40 {
				v = 255
			}
			par.Pix[i], par.Pix[i+1] = v, v
		}
		return par.SubImage(vr), func() string { return fw.Digest(par.Pix) }
	case "rgba64":
		par := image.NewRGBA64(pr)
		for i := 0; i+1 < len(par.Pix); i += 2 {
			v := val((i%par.Stride)/2, i/par.Stride, 4)
			if (i/2)%4 == 3 {
				v = 255 // opaque: premultiplied = straight
			}
			par.Pix[i], par.Pix[i+1] = v, v
		}
		return par.SubImage(vr), func() string { return fw.Digest(par.Pix) }
	case "cmyk":
		par := image.NewCMYK(pr)
		for i := range par.Pix {
			par.Pix[i] = val((i%par.Stride)/4, i/par.Stride, 5+i%4)
			if i%4 == 3 {
				par.Pix[i] = 0 // K = 0: the colour is then exactly an 8-bit RGB colour
			}
		}
		return par.SubImage(vr), func() string { return fw.Digest(par.Pix) }
	}
	panic(typ)
}

func (cs *c19Case) runTyped() string {
	if cs.OX < 0 && len(cs.Typed) > 5 && cs.Typed[:5] == "ycbcr" {
		// the standard library's own chroma indexing is wrong for negative coordinates
		// (truncating division): not a picture this family can state an expectation for
		return ""
	}
	view, digest := typedView(cs.Typed, cs.OX, cs.OY, cs.W, cs.H, cs.Seed)
	b := view.Bounds()
	if b.Dx() != cs.W || b.Dy() != cs.H {
		return "" // (harness) view not of the requested size
	}
	// the same colours as a plain NRGBA at the origin
	canon := image.NewNRGBA(image.Rect(0, 0, cs.W, cs.H))
	for y := 0; y < cs.H; y++ {
		for x := 0; x < cs.W; x++ {
			canon.SetNRGBA(x, y, color.NRGBAModel.Convert(view.At(b.Min.X+x, b.Min.Y+y)).(color.NRGBA))
		}
	}
	if cs.Typed == "palettedA" {
		// exactness: the palette entries ARE color.NRGBA values
		p := view.(*image.Paletted)
		for y := 0; y < cs.H; y++ {
			for x := 0; x < cs.W; x++ {
				canon.SetNRGBA(x, y, p.Palette[p.ColorIndexAt(b.Min.X+x, b.Min.Y+y)].(color.NRGBA))
			}
		}
	}
	var canonImg image.Image = canon
	canonName := "a plain *image.NRGBA holding the same colours"
	if yv, ok := view.(*image.YCbCr); ok {
		// a Y'CbCr colour is a 16-bit colour in Go (color.YCbCr.RGBA), not exactly an 8-bit one: the
		// exact "same colours, other storage" is a 4:4:4 picture at the origin carrying, for every
		// pixel, the (Y, Cb, Cr) triple the view yields there
		c444 := image.NewYCbCr(image.Rect(0, 0, cs.W, cs.H), image.YCbCrSubsampleRatio444)
		for y := 0; y < cs.H; y++ {
			for x := 0; x < cs.W; x++ {
				t := yv.YCbCrAt(b.Min.X+x, b.Min.Y+y)
				c444.Y[c444.YOffset(x, y)], c444.Cb[c444.COffset(x, y)], c444.Cr[c444.COffset(x, y)] = t.Y, t.Cb, t.Cr
			}
		}
		canonImg, canonName = c444, "a 4:4:4 *image.YCbCr at the origin holding the same colours"
	}
	refBytes, err, p := encode(canonImg, cs.opts())
	if p != "" || err != nil {
		return fmt.Sprintf("Encode of the canonical picture failed: %v %s", err, first(p))
	}
	before := digest()
	got, err, p := encode(view, cs.opts())
	if p != "" {
		return "Encode panicked: " + first(p)
	}
	if err != nil {
		return "Encode failed: " + err.Error()
	}
	if digest() != before {
		return "Encode modified the caller's pixel storage"
	}
	if !bytes.Equal(got, refBytes) {
		return fmt.Sprintf("output differs from the encoding of %s (%d vs %d bytes, digests %s vs %s)", canonName, len(got), len(refBytes), fw.Digest(got), fw.Digest(refBytes))
	}
	hid, err, p := encode(hideType{view}, cs.opts())
	if p != "" || err != nil {
		return fmt.Sprintf("Encode of the type-hiding wrapper failed: %v %s", err, first(p))
	}
	if !bytes.Equal(hid, refBytes) {
		return fmt.Sprintf("a wrapper hiding the concrete type gives other bytes than the concrete type (%d vs %d bytes)", len(hid), len(refBytes))
	}
	return ""
}
