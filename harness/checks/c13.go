package checks

import (
	"bytes"
	"encoding/json"
	"fmt"
	"image"
	"os"
	"os/exec"
	"path/filepath"
	"sort"
	"strings"
	"time"

	webp "github.com/deepteams/webp"
	"github.com/deepteams/webp/animation"
	"github.com/deepteams/webp/internal/zzverif/fw"
	"github.com/deepteams/webp/internal/zzverif/imgs"
)

// C13 — results do not depend on CPU-specific code paths or architecture.
//
// Builds compared (same working tree, same harness source):
//   A  native amd64 (AVX2 kernels on this CPU)
//   B  native amd64 with AVX2 detection forced off (SSE2 kernels)
//   C  GOOS=js GOARCH=wasm run under node: the portable pure-Go kernels
// Each build prints one digest per pipeline case; the digests must be equal.
// Compilation is checked with `go build` for a list of GOOS/GOARCH pairs.

type c13Case struct {
	name string
	run  func() []byte
}

func c13Cases(seed int64, repo string) []c13Case {
	pin()
	var out []c13Case
	add := func(n string, f func() []byte) { out = append(out, c13Case{n, f}) }
	lossyVariants := []struct {
		n string
		f func(o *webp.EncoderOptions)
	}{
		{"default", nil},
		{"m0", func(o *webp.EncoderOptions) { o.Method = 0 }},
		{"m2-q50", func(o *webp.EncoderOptions) { o.Method = 2; o.Quality = 50 }},
		{"m6-q90", func(o *webp.EncoderOptions) { o.Method = 6; o.Quality = 90 }},
		{"q100", func(o *webp.EncoderOptions) { o.Quality = 100 }},
		{"q20-seg1-simple", func(o *webp.EncoderOptions) { o.Quality = 20; o.Segments = 1; o.FilterType = 0 }},
		{"sharp", func(o *webp.EncoderOptions) { o.UseSharpYUV = true }},
		{"dither", func(o *webp.EncoderOptions) { o.Preprocessing = 2; o.Quality = 30 }},
		{"sns100-sharp7", func(o *webp.EncoderOptions) { o.SNSStrength = 100; o.FilterSharpness = 7 }},
		{"targetsize", func(o *webp.EncoderOptions) { o.TargetSize = 500 }},
	}
	pics := append([]c02Img{}, c02Images...)
	pics = append(pics, c02Img{96, 80, "patchwork", "opaque"}, c02Img{40, 24, "flat", "opaque"}, c02Img{64, 64, "regions4", "agradient"})
	for i, im := range pics {
		src := imgs.Make(im.W, im.H, im.Content, im.Alpha, seed)
		for _, v := range lossyVariants {
			add(fmt.Sprintf("encode lossy %s img%d %dx%d %s/%s", v.n, i, im.W, im.H, im.Content, im.Alpha), encBytes(src, lossyOpts(v.f)))
		}
		for _, q := range [][2]int{{75, 4}, {100, 6}, {0, 0}, {50, 2}} {
			add(fmt.Sprintf("encode lossless q%d m%d img%d", q[0], q[1], i), encBytes(src, &webp.EncoderOptions{Lossless: true, Quality: float32(q[0]), Method: q[1]}))
		}
	}
	for _, f := range stillCorpus(seed, repo) {
		add("decode "+f.Name, decPix(f.Data))
	}
	// generator corpora: valid streams no encoder emits, incl. extreme coefficient values
	for _, f := range genCorpus(seed) {
		add("decode "+f.Name, decPix(f.Data))
	}
	for _, f := range vp8Corpus(seed) {
		add("decode "+f.Name, decPix(f.Data))
	}
	for _, f := range animCorpus(seed) {
		data := f.Data
		add("play "+f.Name, func() []byte {
			an, err := animation.DecodeBytes(data)
			if err != nil {
				return []byte(err.Error())
			}
			if err := an.DecodeFrames(); err != nil {
				return []byte(err.Error())
			}
			ad, err := animation.NewAnimDecoder(an)
			if err != nil {
				return []byte(err.Error())
			}
			var out []byte
			for ad.HasNext() {
				var s *image.NRGBA
				s, _, err = ad.NextFrame()
				if err != nil {
					return []byte(err.Error())
				}
				out = append(out, s.Pix...)
			}
			return out
		})
	}
	// width sweep through the whole pipeline: vector kernels have tails, and a tail that is wrong
	// (or skipped) only shows for the row lengths / pixel counts of one residue class modulo the
	// vector width.  Every width 1..40 x two heights (pixel counts of every residue mod 8, 16, 32),
	// both codecs, encoded AND decoded in this build; the digest covers the file and the pixels.
	for _, h := range []int{9, 33} {
		for w := 1; w <= 40; w++ {
			for _, lossless := range []bool{true, false} {
				w, h, lossless := w, h, lossless
				name := fmt.Sprintf("roundtrip lossy %dx%d noise/agradient", w, h)
				if lossless {
					name = fmt.Sprintf("roundtrip lossless %dx%d noise/agradient", w, h)
				}
				add(name, func() []byte {
					var o *webp.EncoderOptions
					if lossless {
						o = &webp.EncoderOptions{Lossless: true, Quality: 75, Method: 4}
					}
					data, err, p := encode(imgs.Make(w, h, "noise", "agradient", seed), o)
					if err != nil || p != "" {
						return []byte(fmt.Sprint("encode: ", err, first(p)))
					}
					return append(data, decPix(data)()...)
				})
			}
		}
	}
	// large lossy + alpha decode: exercises the up-sampling / YUV->RGB kernels
	bigA := mustEncode(imgs.Make(130, 67, "noise", "agradient", seed), nil)
	add("decode lossy+alpha 130x67", decPix(bigA))
	out = append(out, c13KernelCases()...)
	return out
}

func c13Digests(seed int64, repo string) []string {
	var lines []string
	times := os.Getenv("VERIF_C13_TIMES") != ""
	for _, c := range c13Cases(seed, repo) {
		t0 := time.Now()
		lines = append(lines, c.name+"\t"+fw.Digest(c.run()))
		if d := time.Since(t0); times && d > 50*time.Millisecond {
			fmt.Fprintf(os.Stderr, "time %v %s\n", d, c.name)
		}
	}
	return lines
}

var c13Targets = []string{
	"linux/386", "linux/arm", "linux/arm64", "linux/riscv64", "linux/mips", "linux/ppc64le", "linux/s390x",
	"js/wasm", "wasip1/wasm", "windows/arm64", "windows/386", "darwin/arm64", "freebsd/amd64",
}

func goEnv(e *fw.Env, extra ...string) []string {
	var env []string
	for _, kv := range os.Environ() {
		if strings.HasPrefix(kv, "GOOS=") || strings.HasPrefix(kv, "GOARCH=") || strings.HasPrefix(kv, "GOFLAGS=") || strings.HasPrefix(kv, "GOCACHE=") || strings.HasPrefix(kv, "GOMAXPROCS=") {
			continue
		}
		env = append(env, kv)
	}
	env = append(env, "GOFLAGS=-mod=mod", "GOPROXY=off", "GOWORK=off", "CGO_ENABLED=0", "GOCACHE="+filepath.Join(e.Verif, ".build", "gocache"))
	return append(env, extra...)
}

func init() {
	fw.Register(&fw.Check{
		ID: "C13", Level: "exploration", Shards: shards1,
		Rule:   "three builds of the current working tree (amd64 with AVX2 kernels; amd64 with AVX2 detection forced off = SSE2 kernels; GOOS=js GOARCH=wasm under node = portable pure-Go kernels) each print one digest per pipeline case: 15 pictures x 10 lossy + 4 lossless option sets (all Methods, sharp YUV, dithering, TargetSize, filters), decode of the whole still corpus (every partition count, transform class, alpha filter), of ~60 generator-made VP8L files and ~230 generator-made VP8 key frames (every header/mode/filter menu value, coefficient programs x magnitudes up to 2114), and playback of the animation corpus; digests must be equal case by case.  `go build` of every library package for a list of GOOS/GOARCH pairs (thorough: every pair `go tool dist list` reports that builds without cgo) must succeed; distinct = distinct (build, case) and (target)",
		Assume: []string{"arm64 assembly cannot be executed here: arm64 and every other port is checked for compilation only", "js/wasm executes the files selected by !amd64 && !arm64 build constraints (the portable path) with 64-bit int; 32-bit behaviour is compile-only", "worker count pinned to 1, pools never reuse"},
		Run: func(e *fw.Env, r *fw.Result) {
			if len(e.Args) > 0 && e.Args[0] == "digests" {
				for _, l := range c13Digests(e.Seed, e.Repo) {
					fmt.Println("DIGEST\t" + l)
				}
				return
			}
			native := c13Digests(e.Seed, e.Repo)
			want := map[string]string{}
			var order []string
			for _, l := range native {
				p := strings.SplitN(l, "\t", 2)
				want[p[0]] = p[1]
				order = append(order, p[0])
			}
			r.Eval(int64(len(native)))
			r.Sample(2, map[string]any{"case": order[0], "digest_native": want[order[0]]})
			ovPath := filepath.Join(e.BuildDir, "overlay.json")
			ovRaw, err := os.ReadFile(ovPath)
			if err != nil {
				r.HarnessError("no overlay: %v", err)
				return
			}
			var ov struct{ Replace map[string]string }
			json.Unmarshal(ovRaw, &ov)
			compare := func(build string, out []byte) {
				got := map[string]string{}
				for _, l := range strings.Split(string(out), "\n") {
					if strings.HasPrefix(l, "DIGEST\t") {
						p := strings.SplitN(strings.TrimPrefix(l, "DIGEST\t"), "\t", 2)
						if len(p) == 2 {
							got[p[0]] = p[1]
						}
					}
				}
				if len(got) == 0 {
					r.Skip("build %s produced no digests: %s", build, tail(string(out), 400))
					return
				}
				n := 0
				for _, name := range order {
					r.Distinct(build, name)
					g, ok := got[name]
					if !ok {
						r.HarnessError("build %s did not report case %q", build, name)
						continue
					}
					r.Eval(1)
					if g != want[name] {
						n++
						if n <= 40 {
							r.Violate("codepath "+build+" :: "+name, fmt.Sprintf("result differs between the native AVX2 build (digest %s) and the %s build (digest %s) [case %s]", want[name], build, g, name), map[string]any{"build": build, "case": name})
						}
					}
				}
				r.Count("cases_compared_"+build, int64(len(order)))
			}
			// --- build B: AVX2 off
			{
				src := filepath.Join(e.Repo, "internal/dsp/cpuid_amd64.go")
				from := src
				if p, ok := ov.Replace[src]; ok {
					from = p
				}
				b, err := os.ReadFile(from)
				const pat = "hasAVX2 = cpuidAVX2Check()"
				if err != nil || strings.Count(string(b), pat) != 1 {
					r.Skip("SSE2 build: pattern %q not found exactly once in internal/dsp/cpuid_amd64.go; variant skipped", pat)
				} else {
					dir := filepath.Join(e.BuildDir, "noavx2")
					os.MkdirAll(dir, 0o755)
					mod := filepath.Join(dir, "cpuid_amd64.go")
					os.WriteFile(mod, []byte(strings.Replace(string(b), pat, "hasAVX2 = false && cpuidAVX2Check()", 1)), 0o644)
					ov2 := map[string]string{}
					for k, v := range ov.Replace {
						ov2[k] = v
					}
					ov2[src] = mod
					j, _ := json.Marshal(map[string]any{"Replace": ov2})
					ovp := filepath.Join(dir, "overlay.json")
					os.WriteFile(ovp, j, 0o644)
					bin := filepath.Join(dir, "harness")
					cmd := exec.Command("go", "build", "-overlay", ovp, "-o", bin, "./internal/zzverif/cmd/harness")
					cmd.Dir = e.Repo
					cmd.Env = goEnv(e)
					if out, err := cmd.CombinedOutput(); err != nil {
						r.Skip("SSE2 build failed (harness): %s", tail(string(out), 400))
					} else {
						c := exec.Command(bin, "C13", e.Tier, "-shard", "0/1", "-out", "/dev/null", "digests")
						c.Env = append(os.Environ(), fmt.Sprintf("VERIF_SEED=%d", e.Seed))
						out, _ := c.CombinedOutput()
						compare("sse2", out)
					}
				}
			}
			// --- build C: js/wasm under node (portable path)
			if node, err := exec.LookPath("node"); err != nil {
				r.Skip("portable build: node not found; js/wasm variant skipped")
			} else {
				dir := filepath.Join(e.BuildDir, "wasm")
				os.MkdirAll(dir, 0o755)
				bin := filepath.Join(dir, "harness.wasm")
				cmd := exec.Command("go", "build", "-overlay", ovPath, "-o", bin, "./internal/zzverif/cmd/harness")
				cmd.Dir = e.Repo
				cmd.Env = goEnv(e, "GOOS=js", "GOARCH=wasm")
				if out, err := cmd.CombinedOutput(); err != nil {
					// the tree itself must compile for js/wasm: decide with a plain library build
					c2 := exec.Command("go", "build", "./...")
					c2.Dir = e.Repo
					c2.Env = goEnv(e, "GOOS=js", "GOARCH=wasm")
					if out2, err2 := c2.CombinedOutput(); err2 != nil {
						r.Violate("compile js/wasm", "the module does not compile for js/wasm: "+first(strings.TrimSpace(string(out2))), map[string]any{"target": "js/wasm"})
					} else {
						r.Skip("portable build of the harness failed (harness): %s", tail(string(out), 400))
					}
				} else {
					g := exec.Command("go", "env", "GOROOT")
					g.Dir = e.Repo
					g.Env = goEnv(e)
					gr, _ := g.Output()
					js := filepath.Join(strings.TrimSpace(string(gr)), "lib", "wasm", "wasm_exec_node.js")
					if _, err := os.Stat(js); err != nil {
						js = filepath.Join(strings.TrimSpace(string(gr)), "misc", "wasm", "wasm_exec_node.js")
					}
					c := exec.Command(node, "--stack-size=8192", js, bin, "C13", e.Tier, "-shard", "0/1", "-out", "/dev/null", "digests")
					// GOMAXPROCS must not be set for js/wasm (single-threaded runtime: newosproc is not implemented)
					for _, kv := range os.Environ() {
						if !strings.HasPrefix(kv, "GOMAXPROCS=") {
							c.Env = append(c.Env, kv)
						}
					}
					c.Env = append(c.Env, fmt.Sprintf("VERIF_SEED=%d", e.Seed), "VERIF_REPO="+e.Repo, "VERIF_DIR="+e.Verif)
					out, _ := c.CombinedOutput()
					compare("portable-wasm", out)
				}
			}
			// --- compilation matrix
			targets := append([]string{}, c13Targets...)
			if !e.Quick() {
				l := exec.Command("go", "tool", "dist", "list")
				l.Dir = e.Repo
				l.Env = goEnv(e)
				if out, err := l.Output(); err == nil {
					targets = nil
					for _, t := range strings.Fields(string(out)) {
						if strings.HasPrefix(t, "android/") || strings.HasPrefix(t, "ios/") {
							continue // need cgo / an external linker
						}
						targets = append(targets, t)
					}
				}
			}
			pk := exec.Command("go", "list", "./...")
			pk.Dir = e.Repo
			pk.Env = goEnv(e)
			pout, _ := pk.Output()
			var pkgs []string
			for _, p := range strings.Fields(string(pout)) {
				if strings.Contains(p, "/zzverif") || strings.HasSuffix(p, "/benchmark") || strings.Contains(p, "/testc") {
					continue
				}
				pkgs = append(pkgs, p)
			}
			sort.Strings(pkgs)
			type res struct {
				t   string
				out []byte
				err error
			}
			ch := make(chan res, len(targets))
			sem := make(chan struct{}, 4)
			for _, t := range targets {
				go func(t string) {
					sem <- struct{}{}
					defer func() { <-sem }()
					p := strings.SplitN(t, "/", 2)
					c := exec.Command("go", append([]string{"build"}, pkgs...)...)
					c.Dir = e.Repo
					c.Env = goEnv(e, "GOOS="+p[0], "GOARCH="+p[1])
					out, err := c.CombinedOutput()
					ch <- res{t, out, err}
				}(t)
			}
			okT := 0
			for range targets {
				x := <-ch
				r.Eval(1)
				r.Distinct("compile", x.t)
				if x.err != nil {
					msg := strings.TrimSpace(string(x.out))
					if strings.Contains(msg, "unsupported GOOS/GOARCH") || strings.Contains(msg, "requires external (cgo) linking") {
						r.Note("target %s skipped: %s", x.t, first(msg))
						continue
					}
					var line string
					for _, l := range strings.Split(msg, "\n") {
						if strings.Contains(l, ".go:") {
							line = l
							break
						}
					}
					r.Violate("compile "+x.t, fmt.Sprintf("the module does not compile for %s: %s", x.t, line), map[string]any{"target": x.t})
				} else {
					okT++
				}
			}
			r.Count("targets_compiled", int64(okT))
			r.SetInfo("compile_targets", targets)
		},
		Replay: func(e *fw.Env, raw json.RawMessage) string {
			return "C13 violations are replayed by re-running the check (they compare builds)"
		},
	})
	_ = bytes.MinRead
}
