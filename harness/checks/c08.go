package checks

import (
	"bytes"
	"encoding/json"
	"fmt"
	"image"
	"image/color"
	"math"
	"strings"
	"time"

	webp "github.com/deepteams/webp"
	"github.com/deepteams/webp/animation"
	"github.com/deepteams/webp/internal/zzverif/bfs"
	"github.com/deepteams/webp/internal/zzverif/fw"
	"github.com/deepteams/webp/internal/zzverif/refdec"
	"github.com/deepteams/webp/internal/zzverif/riffwalk"
	"github.com/deepteams/webp/internal/zzverif/vsync"
)

// C08 / C18 — explicit-state search over the real AnimEncoder: every AddFrame
// history up to a depth, played back by the package's own reader/player and by
// the reference stack (riffwalk + vendored decoders + reference compositor).

const aeW, aeH = 8, 8

type aePic struct {
	name string
	img  image.Image  // what is handed to AddFrame
	full *image.NRGBA // the canvas it denotes (placed at 0,0 on a transparent canvas)
}

func aeBase(seed int64) *image.NRGBA {
	m := image.NewNRGBA(image.Rect(0, 0, aeW, aeH))
	pal := []color.NRGBA{{200, 30, 10, 255}, {10, 90, 250, 255}, {250, 250, 250, 255}, {0, 0, 0, 255}}
	for y := 0; y < aeH; y++ {
		for x := 0; x < aeW; x++ {
			m.SetNRGBA(x, y, pal[(x/2+y/3+int(seed))%4])
		}
	}
	return m
}

func clone(m *image.NRGBA) *image.NRGBA {
	c := image.NewNRGBA(m.Rect)
	copy(c.Pix, m.Pix)
	return c
}

func aePictures(seed int64, alphaOnly bool) []aePic {
	var out []aePic
	add := func(name string, img image.Image, full *image.NRGBA) { out = append(out, aePic{name, img, full}) }
	self := func(name string, m *image.NRGBA) { add(name, m, m) }
	base := aeBase(seed)
	// semi-transparent base: a translucent band in the middle
	semi := clone(base)
	for y := 2; y < 6; y++ {
		for x := 0; x < aeW; x++ {
			c := semi.NRGBAAt(x, y)
			c.A = 128
			semi.SetNRGBA(x, y, c)
		}
	}
	semiOnly := image.NewNRGBA(image.Rect(0, 0, aeW, aeH)) // the translucent band alone on transparent ground
	for y := 2; y < 6; y++ {
		for x := 0; x < aeW; x++ {
			semiOnly.SetNRGBA(x, y, semi.NRGBAAt(x, y))
		}
	}
	semi1 := clone(semi) // one pixel changes inside the translucent band (neighbours unchanged, alpha 128)
	semi1.SetNRGBA(3, 3, color.NRGBA{1, 2, 3, 128})
	semiO := clone(semi) // an OPAQUE pixel appears inside the translucent band: its even-snapped
	// rectangle contains unchanged translucent neighbours and every changed pixel is opaque,
	// which is exactly when the encoder may choose alpha blending
	semiO.SetNRGBA(3, 3, color.NRGBA{250, 240, 10, 255})
	semiT := clone(semi) // a translucent pixel becomes transparent
	semiT.SetNRGBA(4, 4, color.NRGBA{})
	bin := clone(base) // binary alpha: left half transparent
	for y := 0; y < aeH; y++ {
		for x := 0; x < 4; x++ {
			bin.SetNRGBA(x, y, color.NRGBA{})
		}
	}
	bin1 := clone(bin) // one opaque pixel appears on the transparent half
	bin1.SetNRGBA(1, 6, color.NRGBA{9, 200, 9, 255})
	graded := clone(base)
	for y := 0; y < aeH; y++ {
		for x := 0; x < aeW; x++ {
			c := graded.NRGBAAt(x, y)
			c.A = uint8(x * 255 / (aeW - 1))
			graded.SetNRGBA(x, y, c)
		}
	}
	bin2 := clone(bin) // the same pixel in another colour
	bin2.SetNRGBA(1, 6, color.NRGBA{200, 9, 200, 255})
	bin3 := clone(bin) // that pixel gone again, another one appears elsewhere
	bin3.SetNRGBA(2, 1, color.NRGBA{9, 9, 200, 255})
	if alphaOnly {
		self("binary", bin)
		self("binary+1px", bin1)
		self("binary+other-px", bin3)
		self("graded", graded)
		self("semi-band", semi)
		self("semi-band-1px", semi1)
		self("semi-band-opaque-px", semiO)
		self("semi-band-alone", semiOnly)
		self("transparent", image.NewNRGBA(image.Rect(0, 0, aeW, aeH)))
		self("opaque", base)
		return out
	}
	self("base", base)
	p1 := clone(base)
	p1.SetNRGBA(2, 2, color.NRGBA{7, 7, 7, 255})
	self("1px-even", p1)
	p2 := clone(base)
	p2.SetNRGBA(3, 5, color.NRGBA{7, 7, 7, 255})
	self("1px-odd", p2)
	p3 := clone(base)
	for y := 5; y < 7; y++ {
		for x := 5; x < 7; x++ {
			p3.SetNRGBA(x, y, color.NRGBA{0, 255, 0, 255})
		}
	}
	self("2x2-block", p3)
	p4 := aeBase(seed + 1)
	for i := 0; i < len(p4.Pix); i += 4 {
		p4.Pix[i] ^= 0x5a
	}
	self("all-changed", p4)
	self("semi-band", semi)
	self("semi-band-1px", semi1)
	self("semi-band-opaque-px", semiO)
	self("semi-to-transparent", semiT)
	self("semi-band-alone", semiOnly)
	self("binary", bin)
	self("binary+1px", bin1)
	self("binary+1px-recoloured", bin2)
	self("binary+other-px", bin3)
	// smaller than the canvas
	small := image.NewNRGBA(image.Rect(0, 0, 5, 3))
	for i := range small.Pix {
		small.Pix[i] = 255
	}
	fullSmall := image.NewNRGBA(image.Rect(0, 0, aeW, aeH))
	for y := 0; y < 3; y++ {
		for x := 0; x < 5; x++ {
			fullSmall.SetNRGBA(x, y, color.NRGBA{255, 255, 255, 255})
		}
	}
	add("small-5x3", small, fullSmall)
	// other undersized shapes: a later one does not cover an earlier one
	for _, d := range [][2]int{{3, 5}, {2, 2}} {
		sm := image.NewNRGBA(image.Rect(0, 0, d[0], d[1]))
		fs := image.NewNRGBA(image.Rect(0, 0, aeW, aeH))
		for y := 0; y < d[1]; y++ {
			for x := 0; x < d[0]; x++ {
				c := color.NRGBA{uint8(40 * d[0]), uint8(60 * x), uint8(50 * y), 255}
				sm.SetNRGBA(x, y, c)
				fs.SetNRGBA(x, y, c)
			}
		}
		add(fmt.Sprintf("small-%dx%d", d[0], d[1]), sm, fs)
	}
	// a sub-image view with a foreign stride and non-zero origin
	parent := image.NewNRGBA(image.Rect(0, 0, aeW+5, aeH+3))
	for i := range parent.Pix {
		parent.Pix[i] = 0x77
	}
	view := parent.SubImage(image.Rect(3, 2, 3+aeW, 2+aeH)).(*image.NRGBA)
	for y := 0; y < aeH; y++ {
		for x := 0; x < aeW; x++ {
			view.SetNRGBA(3+x, 2+y, p2.NRGBAAt(x, y))
		}
	}
	add("view-of-1px-odd", view, p2)
	self("transparent", image.NewNRGBA(image.Rect(0, 0, aeW, aeH)))
	return out
}

// aeLW x aeLH is the second, larger canvas: more than 256 pixels so that a picture can
// have more colours than a palette holds, and two macroblocks for the lossy codec.
const aeLW, aeLH = 24, 16

func aeLargePictures(seed int64, alphaOnly bool) []aePic {
	var out []aePic
	self := func(name string, m *image.NRGBA) { out = append(out, aePic{name, m, m}) }
	noise := image.NewNRGBA(image.Rect(0, 0, aeLW, aeLH))
	rnd := uint32(seed)*2654435761 + 12345
	next := func() color.NRGBA { // incompressible content: storing unchanged pixels as holes pays off
		rnd = rnd*1664525 + 1013904223
		return color.NRGBA{uint8(rnd >> 24), uint8(rnd >> 16), uint8(rnd >> 8), 255}
	}
	for y := 0; y < aeLH; y++ {
		for x := 0; x < aeLW; x++ {
			noise.SetNRGBA(x, y, next())
		}
	}
	corners := clone(noise) // two changed pixels whose bounding box is the whole canvas
	corners.SetNRGBA(0, 0, color.NRGBA{255, 255, 255, 255})
	corners.SetNRGBA(aeLW-1, aeLH-1, color.NRGBA{1, 1, 1, 255})
	one := clone(noise)
	one.SetNRGBA(13, 7, color.NRGBA{255, 0, 255, 255})
	topRows := clone(noise) // a large changed region first, unchanged pixels only after it, one changed pixel at the end
	for y := 0; y < 11; y++ {
		for x := 0; x < aeLW; x++ {
			topRows.SetNRGBA(x, y, next())
		}
	}
	topRows.SetNRGBA(aeLW-1, aeLH-1, color.NRGBA{9, 9, 9, 255})
	late := clone(noise) // the only transparent pixels come after more than 256 colours
	for x := 0; x < aeLW; x++ {
		late.SetNRGBA(x, aeLH-1, color.NRGBA{})
	}
	lastpx := clone(noise)
	lastpx.SetNRGBA(aeLW-1, aeLH-1, color.NRGBA{})
	flat := image.NewNRGBA(image.Rect(0, 0, aeLW, aeLH))
	pal := []color.NRGBA{{200, 30, 10, 255}, {10, 90, 250, 255}, {250, 250, 250, 255}, {0, 0, 0, 255}}
	for y := 0; y < aeLH; y++ {
		for x := 0; x < aeLW; x++ {
			flat.SetNRGBA(x, y, pal[(x/5+y/3+int(seed))%4])
		}
	}
	graded := clone(noise)
	semi := clone(noise)
	binR := clone(noise)
	for y := 0; y < aeLH; y++ {
		for x := 0; x < aeLW; x++ {
			c := graded.NRGBAAt(x, y)
			c.A = uint8(x * 255 / (aeLW - 1))
			graded.SetNRGBA(x, y, c)
			if y >= 4 && y < 12 {
				c.A = 128
				semi.SetNRGBA(x, y, c)
			}
			if x >= 16 {
				binR.SetNRGBA(x, y, color.NRGBA{})
			}
		}
	}
	// three pictures that drive the "full-canvas key frame is smaller than the sub-frame" decision: half
	// the pixels random, half flat (in a random pattern) with two translucent columns that never change;
	// the same with a 2x2 block changed (a small sub-frame); everything flat (the changed-pixel mask is
	// random, so the sub-frame with holes codes worse than the whole flat picture)
	speckle := image.NewNRGBA(image.Rect(0, 0, aeLW, aeLH))
	flatGlow := image.NewNRGBA(image.Rect(0, 0, aeLW, aeLH))
	for y := 0; y < aeLH; y++ {
		for x := 0; x < aeLW; x++ {
			c := next()
			fl := color.NRGBA{10, 120, 200, 255}
			switch {
			case x < 2:
				c, fl = color.NRGBA{200, 50, 50, 128}, color.NRGBA{200, 50, 50, 128}
			case c.R&1 == 0:
				c = fl
			}
			speckle.SetNRGBA(x, y, c)
			flatGlow.SetNRGBA(x, y, fl)
		}
	}
	speckle2 := clone(speckle)
	for y := 6; y < 8; y++ {
		for x := 10; x < 12; x++ {
			speckle2.SetNRGBA(x, y, color.NRGBA{255, 255, 0, 255})
		}
	}
	semiOnlyL := image.NewNRGBA(image.Rect(0, 0, aeLW, aeLH)) // the translucent band alone on transparent ground
	for y := 4; y < 12; y++ {
		for x := 0; x < aeLW; x++ {
			semiOnlyL.SetNRGBA(x, y, semi.NRGBAAt(x, y))
		}
	}
	glow := clone(noise) // curved alpha surface with more than 16 levels, saturating at 255 and resting at 0
	for y := 0; y < aeLH; y++ {
		for x := 0; x < aeLW; x++ {
			dx, dy := float64(x)-11.5, float64(y)-7.5
			g := 340 * math.Exp(-(dx*dx+dy*dy)/50)
			if g > 255 {
				g = 255
			}
			if g < 3 {
				g = 0
			}
			c := glow.NRGBAAt(x, y)
			c.A = uint8(g)
			glow.SetNRGBA(x, y, c)
		}
	}
	semiO := clone(semi) // an opaque pixel appears inside the translucent band of the second macroblock
	semiO.SetNRGBA(19, 7, color.NRGBA{250, 240, 10, 255})
	if alphaOnly {
		self("L-opaque", noise)
		self("L-graded", graded)
		self("L-semi-band", semi)
		self("L-semi-band-opaque-px", semiO)
		self("L-semi-band-alone", semiOnlyL)
		self("L-glow", glow)
		self("L-speckle", speckle)
		self("L-speckle-2x2", speckle2)
		self("L-flat-glow-columns", flatGlow)
		self("L-binary-right", binR)
		self("L-late-row-transparent", late)
		return out
	}
	self("L-noise", noise)
	self("L-noise-corners", corners)
	self("L-noise-1px", one)
	self("L-noise-top-rows-and-last-px", topRows)
	self("L-noise-late-row-transparent", late)
	self("L-noise-last-px-transparent", lastpx)
	self("L-flat-4-colours", flat)
	self("L-semi-band", semi)
	self("L-semi-band-opaque-px", semiO)
	self("L-semi-band-alone", semiOnlyL)
	self("L-speckle", speckle)
	self("L-speckle-2x2", speckle2)
	self("L-flat-glow-columns", flatGlow)
	return out
}

type aeOp struct {
	Pic int
	Dur int // milliseconds
	Raw int // 0: AddFrame(picture); k>0: the k-th pre-encoded-frame operation of aeRawOps
}

// A pre-encoded frame handed to the encoder: through AddRawFrame (own offset, blend and dispose)
// or as AddFrame(NewBitstreamFrame(...)). What it shows is defined by the container's compositing
// rules; the pictures given to AddFrame before and after it must still play back exactly.
type aeRaw struct {
	name      string
	bitstream []byte
	img       *image.NRGBA // what the bitstream decodes to
	x, y      int
	noBlend   bool
	dispose   bool
	asImage   bool // AddFrame(NewBitstreamFrame(...)) instead of AddRawFrame
}

func aeRawOps(seed int64) []aeRaw {
	bits := func(m *image.NRGBA) []byte {
		f, err := riffwalk.Parse(mustEncode(m, &webp.EncoderOptions{Lossless: true, Quality: 75, Exact: true}))
		if err != nil || len(f.Frames) != 1 {
			panic("c08: cannot build a raw frame")
		}
		return f.Frames[0].Bitstream
	}
	full := image.NewNRGBA(image.Rect(0, 0, aeW, aeH))
	for y := 0; y < aeH; y++ {
		for x := 0; x < aeW; x++ {
			full.SetNRGBA(x, y, color.NRGBA{uint8(20 + 9*x), uint8(240 - 7*y), 77, 255})
		}
	}
	small := image.NewNRGBA(image.Rect(0, 0, 4, 4))
	for y := 0; y < 4; y++ {
		for x := 0; x < 4; x++ {
			small.SetNRGBA(x, y, color.NRGBA{uint8(250 - 30*x), 5, uint8(40 * y), uint8(128 + 127*((x+y)%2))})
		}
	}
	return []aeRaw{
		{name: "raw-full-noblend", bitstream: bits(full), img: full, noBlend: true},
		{name: "raw-4x4@2,2-blend-dispose", bitstream: bits(small), img: small, x: 2, y: 2, dispose: true},
		{name: "bitstream-frame-full", bitstream: bits(full), img: full, asImage: true},
	}
}

type aeConfig struct {
	Name       string
	Kmin, Kmax int
	Loop       int
	Lossless   bool
	AllowMixed bool
	Quality    int
}

type aeSys struct {
	w, h      int // canvas
	pics      []aePic
	raws      []aeRaw
	ops       []aeOp
	cfg       aeConfig
	alphaOnly bool // C18: compare the alpha channel only
}

// aeCoreOps is the reduced alphabet searched one level deeper: the pictures
// whose differences are small sub-rectangles on (partly) transparent or
// translucent ground, at one duration.
func aeCoreOps(pics []aePic) []aeOp {
	var ops []aeOp
	for i, p := range pics {
		switch p.name {
		case "base", "binary", "binary+1px", "binary+1px-recoloured", "binary+other-px", "semi-band", "semi-band-1px", "semi-band-opaque-px", "small-5x3", "small-3x5":
			ops = append(ops, aeOp{Pic: i, Dur: 100})
		}
	}
	return ops
}

func (s *aeSys) NOps(depth int) int { return len(s.ops) }
func (s *aeSys) Describe(h []int) string {
	var p []string
	for _, i := range h {
		if k := s.ops[i].Raw; k > 0 {
			p = append(p, fmt.Sprintf("%s/%dms", s.raws[k-1].name, s.ops[i].Dur))
			continue
		}
		p = append(p, fmt.Sprintf("%s/%dms", s.pics[s.ops[i].Pic].name, s.ops[i].Dur))
	}
	return fmt.Sprintf("cfg{%s} frames[%s]", s.cfg.Name, strings.Join(p, ", "))
}

func sameCanvas(a, b *image.NRGBA, alphaOnly bool) bool {
	if a.Rect.Dx() != b.Rect.Dx() || a.Rect.Dy() != b.Rect.Dy() {
		return false
	}
	for y := 0; y < a.Rect.Dy(); y++ {
		for x := 0; x < a.Rect.Dx(); x++ {
			p, q := a.NRGBAAt(a.Rect.Min.X+x, a.Rect.Min.Y+y), b.NRGBAAt(b.Rect.Min.X+x, b.Rect.Min.Y+y)
			if alphaOnly {
				if p.A != q.A {
					return false
				}
				continue
			}
			if p != q && !(p.A == 0 && q.A == 0) {
				return false
			}
		}
	}
	return true
}

func firstDiff(want, got *image.NRGBA, alphaOnly bool) string {
	n := 0
	f := ""
	if want.Rect.Dx() != got.Rect.Dx() || want.Rect.Dy() != got.Rect.Dy() {
		return fmt.Sprintf("canvas is %v, want %v", got.Rect, want.Rect)
	}
	for y := 0; y < want.Rect.Dy(); y++ {
		for x := 0; x < want.Rect.Dx(); x++ {
			p, q := want.NRGBAAt(want.Rect.Min.X+x, want.Rect.Min.Y+y), got.NRGBAAt(got.Rect.Min.X+x, got.Rect.Min.Y+y)
			bad := p != q && !(p.A == 0 && q.A == 0)
			if alphaOnly {
				bad = p.A != q.A
			}
			if bad {
				if n == 0 {
					f = fmt.Sprintf("(%d,%d) got %v want %v", x, y, q, p)
				}
				n++
			}
		}
	}
	return fmt.Sprintf("%d px differ, first %s", n, f)
}

type run struct {
	canvas *image.NRGBA
	dur    int
}

// mergeRuns run-length merges consecutive equal canvases, summing durations.
func mergeRuns(in []run, alphaOnly bool) []run {
	var out []run
	for _, r := range in {
		if n := len(out); n > 0 && sameCanvas(out[n-1].canvas, r.canvas, alphaOnly) {
			out[n-1].dur += r.dur
			continue
		}
		out = append(out, r)
	}
	return out
}

func (s *aeSys) Exec(h []int) (st bfs.Step) {
	defer func() {
		if r := recover(); r != nil {
			st.Violation = fmt.Sprintf("panic: %v", r)
		}
	}()
	// every history starts from empty pools and then reuses within the history
	// (deterministic per history, and ~10x cheaper than never reusing)
	vsync.ResetPools()
	var buf bytes.Buffer
	enc := animation.NewEncoder(&buf, s.w, s.h, &animation.EncodeOptions{
		LoopCount: s.cfg.Loop, Kmin: s.cfg.Kmin, Kmax: s.cfg.Kmax, Lossless: s.cfg.Lossless, AllowMixed: s.cfg.AllowMixed, Quality: s.cfg.Quality})
	if enc == nil {
		return bfs.Step{Violation: fmt.Sprintf("NewEncoder returned nil for a %dx%d canvas", s.w, s.h)}
	}
	var want []run
	var model []refdec.RFrame // the same history as the container's compositing rules see it
	anyRaw := false
	for _, i := range h {
		op := s.ops[i]
		if op.Raw > 0 {
			rw := &s.raws[op.Raw-1]
			anyRaw = true
			var err error
			if rw.asImage {
				err = enc.AddFrame(animation.NewBitstreamFrame(rw.bitstream, rw.img.Rect.Dx(), rw.img.Rect.Dy()), time.Duration(op.Dur)*time.Millisecond)
			} else {
				bl, dp := animation.BlendAlpha, animation.DisposeNone
				if rw.noBlend {
					bl = animation.BlendNone
				}
				if rw.dispose {
					dp = animation.DisposeBackground
				}
				err = enc.AddRawFrame(rw.bitstream, time.Duration(op.Dur)*time.Millisecond, rw.x, rw.y, bl, dp)
			}
			if err != nil {
				return bfs.Step{Violation: "a valid pre-encoded frame was rejected: " + err.Error()}
			}
			model = append(model, refdec.RFrame{X: rw.x, Y: rw.y, Img: rw.img, NoBlend: rw.noBlend, Dispose: rw.dispose})
			want = append(want, run{nil, op.Dur})
			continue
		}
		if err := enc.AddFrame(s.pics[op.Pic].img, time.Duration(op.Dur)*time.Millisecond); err != nil {
			return bfs.Step{Violation: "AddFrame rejected a valid frame: " + err.Error()}
		}
		want = append(want, run{s.pics[op.Pic].full, op.Dur})
		model = append(model, refdec.RFrame{Img: s.pics[op.Pic].full, NoBlend: true})
	}
	if anyRaw {
		// a picture given to AddFrame must show exactly that picture; a pre-encoded frame shows
		// what the compositing rules make of it on top of what was shown before
		shown := refdec.Compose(s.w, s.h, model)
		for k := range want {
			if want[k].canvas == nil {
				want[k].canvas = shown[k]
			}
		}
	}
	// state key before Close (Close marks the encoder closed)
	hs := bfs.NewHasher("w")
	hs.Value(enc)
	key := hs.Sum()
	if err := enc.Close(); err != nil {
		return bfs.Step{Violation: "Close failed: " + err.Error()}
	}
	out := buf.Bytes()
	want = mergeRuns(want, s.alphaOnly)
	if v := s.playback(out, want); v != "" {
		return bfs.Step{Violation: v}
	}
	return bfs.Step{Key: key}
}

// playback checks the written file against the expected runs, by this
// package's reader/player and by the reference stack.
func (s *aeSys) playback(out []byte, want []run) string {
	f, perr := riffwalk.Parse(out)
	if perr != nil {
		return "output is not parseable: " + perr.Error()
	}
	if len(f.Problems) > 0 {
		return "output is not a conformant container: " + strings.Join(f.Problems, "; ")
	}
	if f.CanvasW != s.w || f.CanvasH != s.h {
		return fmt.Sprintf("canvas size %dx%d, encoder was created with %dx%d", f.CanvasW, f.CanvasH, s.w, s.h)
	}
	timing := len(want) >= 2
	// --- reference stack
	var rframes []refdec.RFrame
	var durs []int
	for i := range f.Frames {
		fr := &f.Frames[i]
		d, err := refdec.DecodeFrame(fr)
		if err != nil {
			return fmt.Sprintf("reference decoder rejects frame %d: %v", i, err)
		}
		var img *image.NRGBA
		if d.NRGBA != nil {
			img = d.NRGBA
		} else {
			img = refdec.ToNRGBA(d)
		}
		x, y := fr.X, fr.Y
		nb, dp := fr.NoBlend, fr.Dispose
		if !f.Animated {
			x, y, nb, dp = 0, 0, true, false
		}
		rframes = append(rframes, refdec.RFrame{X: x, Y: y, Img: img, NoBlend: nb, Dispose: dp})
		durs = append(durs, fr.Duration)
	}
	refCanvases := refdec.Compose(s.w, s.h, rframes)
	var gotRef []run
	for i, c := range refCanvases {
		gotRef = append(gotRef, run{c, durs[i]})
	}
	if v := s.compare("reference player", mergeRuns(gotRef, s.alphaOnly), want, timing && f.Animated); v != "" {
		return v
	}
	if timing && !f.Animated {
		return fmt.Sprintf("%d distinct pictures were added but the output is a still image", len(want))
	}
	if timing && f.Loop != s.cfg.LoopWant() {
		return fmt.Sprintf("loop count %d, encoder was created with %d", f.Loop, s.cfg.LoopWant())
	}
	// --- this package's reader and player
	an, err := animation.DecodeBytes(out)
	if err != nil {
		return "animation.DecodeBytes rejects the encoder's output: " + err.Error()
	}
	if an.CanvasWidth != s.w || an.CanvasHeight != s.h {
		return fmt.Sprintf("animation.DecodeBytes canvas %dx%d", an.CanvasWidth, an.CanvasHeight)
	}
	if err := an.DecodeFrames(); err != nil {
		return "DecodeFrames: " + err.Error()
	}
	ad, err := animation.NewAnimDecoder(an)
	if err != nil {
		return "NewAnimDecoder: " + err.Error()
	}
	var got []run
	for ad.HasNext() {
		snap, d, err := ad.NextFrame()
		if err != nil {
			return "NextFrame: " + err.Error()
		}
		got = append(got, run{snap, int(d / time.Millisecond)})
	}
	if v := s.compare("this package's player", mergeRuns(got, s.alphaOnly), want, timing && f.Animated); v != "" {
		return v
	}
	if timing {
		if an.LoopCount != s.cfg.LoopWant() {
			return fmt.Sprintf("animation.DecodeBytes loop count %d, want %d", an.LoopCount, s.cfg.LoopWant())
		}
		total := 0
		for _, w := range want {
			total += w.dur
		}
		if int(an.TotalDuration()/time.Millisecond) != total {
			return fmt.Sprintf("total duration %v, frames added total %d ms", an.TotalDuration(), total)
		}
	}
	return ""
}

func (c aeConfig) LoopWant() int {
	if c.Loop < 0 {
		return 0
	}
	if c.Loop > 65535 {
		return 65535
	}
	return c.Loop
}

func (s *aeSys) compare(who string, got, want []run, timing bool) string {
	if len(got) != len(want) {
		return fmt.Sprintf("%s shows %d distinct pictures in sequence, %d were added", who, len(got), len(want))
	}
	for i := range want {
		if !sameCanvas(want[i].canvas, got[i].canvas, s.alphaOnly) {
			what := "picture"
			if s.alphaOnly {
				what = "alpha channel of picture"
			}
			return fmt.Sprintf("%s: %s %d differs from the input: %s", who, what, i, firstDiff(want[i].canvas, got[i].canvas, s.alphaOnly))
		}
		if timing && got[i].dur != want[i].dur {
			return fmt.Sprintf("%s: picture %d is displayed for %d ms, frames added for %d ms", who, i, got[i].dur, want[i].dur)
		}
	}
	return ""
}

func aeOps(pics []aePic, alphaOnly bool) []aeOp {
	var ops []aeOp
	for i := range pics {
		ops = append(ops, aeOp{Pic: i, Dur: 100})
	}
	// special durations on a few pictures
	for _, i := range []int{0, 1} {
		for _, d := range []int{0, 1, 0xFFFFFF} {
			if alphaOnly && d == 1 {
				continue
			}
			ops = append(ops, aeOp{Pic: i, Dur: d})
		}
	}
	if !alphaOnly {
		for i := range pics {
			if pics[i].name == "binary" {
				for _, d := range []int{0, 0xFFFFFF} {
					ops = append(ops, aeOp{Pic: i, Dur: d})
				}
			}
		}
	}
	return ops
}

func registerAnimEnc(id string, alphaOnly bool, configs func(e *fw.Env) []aeConfig, depth func(e *fw.Env) int, rule string) {
	mk := func(e *fw.Env, seed int64, cfg aeConfig, large bool) *aeSys {
		if large {
			pics := aeLargePictures(seed, alphaOnly)
			var ops []aeOp
			for i := range pics {
				ops = append(ops, aeOp{Pic: i, Dur: 100})
			}
			return &aeSys{w: aeLW, h: aeLH, pics: pics, ops: ops, cfg: cfg, alphaOnly: alphaOnly}
		}
		pics := aePictures(seed, alphaOnly)
		sys := &aeSys{w: aeW, h: aeH, pics: pics, ops: aeOps(pics, alphaOnly), cfg: cfg, alphaOnly: alphaOnly}
		if !alphaOnly {
			sys.raws = aeRawOps(seed)
			for k := range sys.raws {
				sys.ops = append(sys.ops, aeOp{Dur: 100, Raw: k + 1})
			}
		}
		return sys
	}
	fw.Register(&fw.Check{
		ID: id, Level: "model_checking", Shards: shards16, Rule: rule,
		Assume: []string{"worker count pinned to 1; pools are emptied at the start of every history and reuse within it", "reference player = riffwalk + vendored x/image decoders + reference compositor with libwebp's blend arithmetic", "state = real AnimEncoder (private state hashed by reflection) + model list of (canvas, duration); every history is closed on a replayed copy and played back"},
		Run: func(e *fw.Env, r *fw.Result) {
			pin()
			setPoolsMostRecent()
			cfgs := configs(e)
			ns := 0
			for ci, cfg := range cfgs {
				for pass := 0; pass < 4; pass++ {
					sys := mk(e, e.Seed, cfg, pass >= 2)
					dep := depth(e)
					if pass == 3 {
						// fourth search: the key-frame-fallback family on the large canvas, one level deeper.
						// What follows a fallback key frame (a repeat of it: whose duration grows? a mostly
						// transparent picture: which frame is told to dispose?) needs a sub-frame BEFORE the
						// fallback, i.e. four frames.
						var ops []aeOp
						for _, o := range sys.ops {
							switch sys.pics[o.Pic].name {
							case "L-speckle", "L-speckle-2x2", "L-flat-glow-columns", "L-semi-band-alone":
								ops = append(ops, o)
							}
						}
						sys.ops = ops
						dep++
						if len(ops) == 0 {
							continue
						}
					}
					if pass == 0 && e.Quick() && ci >= 3 && !alphaOnly {
						continue // quick: full alphabet on the first three configurations, core alphabet on all
					}
					if pass == 1 {
						// second search: reduced alphabet, one level deeper
						sys.ops = aeCoreOps(sys.pics)
						if len(sys.raws) > 1 {
							sys.ops = append(sys.ops, aeOp{Dur: 100, Raw: 2}) // the off-origin, blended, disposing one
						}
						dep++
						if len(sys.ops) == 0 {
							continue
						}
					}
					// shard over (config, first op)
					st := bfs.Run(sys, bfs.Config{MaxDepth: dep, Shard: (e.Shard + ci) % e.NShard, NShard: e.NShard, Stop: e.Expired,
						OnViolation: func(h []int, v string) {
							var ops []aeOp
							for _, i := range h {
								ops = append(ops, sys.ops[i])
							}
							r.Violate("anim "+sys.Describe(h), v+" ["+sys.Describe(h)+"]", map[string]any{"ops": ops, "cfg": cfg, "large": pass >= 2})
						},
						OnState: func(key uint64, h []int) {
							r.DistinctHash(key ^ uint64(ci)<<56 ^ uint64(pass)<<52)
							if ns < 3 && len(h) == 3 {
								ns++
								r.Sample(4, map[string]any{"history": sys.Describe(h)})
							}
						}})
					r.Transitions += st.Transitions
					r.Traces += st.Transitions
					r.Eval(st.Transitions)
					if st.Capped != "" {
						r.Cap("%s (config %s)", st.Capped, cfg.Name)
					}
					if e.Shard == 0 && ci == 0 {
						r.SetInfo(fmt.Sprintf("bfs_depth_completed_pass%d", pass), st.Depth)
						r.Count(fmt.Sprintf("operation_alphabet_pass%d", pass), int64(len(sys.ops)))
						r.Count("configurations", int64(len(cfgs)))
					}
				}
			}
		},
		Post: func(e *fw.Env, r *fw.Result) { r.States = int64(len(r.DistinctSet)) },
		Replay: func(e *fw.Env, raw json.RawMessage) string {
			pin()
			var rp struct {
				Ops   []aeOp
				Cfg   aeConfig
				Large bool
			}
			json.Unmarshal(raw, &rp)
			setPoolsMostRecent()
			sys := mk(e, e.Seed, rp.Cfg, rp.Large)
			sys.ops = rp.Ops
			h := make([]int, len(rp.Ops))
			for i := range h {
				h[i] = i
			}
			return sys.Exec(h).Violation
		},
	})
}

func init() {
	registerAnimEnc("C08", false,
		func(e *fw.Env) []aeConfig {
			var out []aeConfig
			for _, k := range [][2]int{{0, 0}, {1, 2}, {0, 1}, {2, 3}, {3, 5}} {
				out = append(out, aeConfig{Name: fmt.Sprintf("kmin=%d,kmax=%d,loop=0", k[0], k[1]), Kmin: k[0], Kmax: k[1], Lossless: true, Quality: 75})
			}
			out = append(out, aeConfig{Name: "kmin=0,kmax=0,loop=1", Loop: 1, Lossless: true, Quality: 75},
				aeConfig{Name: "kmin=1,kmax=2,loop=65535", Kmin: 1, Kmax: 2, Loop: 65535, Lossless: true, Quality: 75},
				aeConfig{Name: "kmin=0,kmax=0,loop=70000", Loop: 70000, Lossless: true, Quality: 75})
			return out
		},
		func(e *fw.Env) int {
			if e.Quick() {
				return 3
			}
			return 4
		},
		"explicit-state BFS over the real lossless AnimEncoder on an 8x8 canvas: every AddFrame history up to depth 3 (thorough 4; a 10-picture core alphabet one level deeper) over 28 operations (3 pre-encoded frames handed over through AddRawFrame - full canvas without blending; 4x4 at (2,2) blended and disposed to background - and through AddFrame(NewBitstreamFrame), whose effect is defined by the compositing rules while the pictures added before and after them must still play back exactly; 25 (picture, duration) operations on 18 pictures: base, 1-pixel changes at even/odd coordinates, 2x2 block, all changed, translucent band with unchanged translucent neighbours, pixel becoming transparent, binary alpha, smaller than the canvas in three shapes, foreign-stride view, fully transparent; durations 0/1/100/0xFFFFFF ms) x 8 configurations (Kmin/Kmax x loop count), and a third search on a 24x16 canvas over 13 pictures that have more colours than a palette holds (every pixel its own colour; changed corner pixels whose bounding box is the canvas; a changed region followed by unchanged pixels; transparent pixels that come only after 256 colours; translucent band; a half-random picture followed by a flat one, for which the full-canvas key frame beats the sub-frame); every history is closed and played back by animation.DecodeBytes+AnimDecoder and by the reference stack and compared with the run-length-merged input list, display times, total duration, loop count, canvas size")
	registerAnimEnc("C18", true,
		func(e *fw.Env) []aeConfig {
			var out []aeConfig
			for _, ll := range []bool{false, true} {
				for _, mx := range []bool{false, true} {
					for _, q := range []int{50, 100} {
						if ll && !mx && q == 50 {
							continue // pure lossless is C08's subject; one instance kept as control
						}
						out = append(out, aeConfig{Name: fmt.Sprintf("lossless=%v,mixed=%v,q=%d", ll, mx, q), Lossless: ll, AllowMixed: mx, Quality: q})
					}
				}
			}
			out = append(out, aeConfig{Name: "lossless=false,mixed=true,q=75,kmax=2", Kmin: 1, Kmax: 2, AllowMixed: true, Quality: 75})
			return out
		},
		func(e *fw.Env) int {
			if e.Quick() {
				return 3
			}
			return 4
		},
		"explicit-state BFS over the real AnimEncoder in lossy and mixed-codec modes on an 8x8 canvas: every AddFrame history up to depth 3 (thorough 4; a reduced alphabet one level deeper) over 11 operations (10 pictures with binary, graded and translucent alpha on opaque and on transparent ground, fully transparent, opaque; durations 0/100/0xFFFFFF ms) x 8 configurations (Lossless x AllowMixed x Quality x key-frame setting), and a third search on a 24x16 canvas (two macroblocks) over 11 pictures; the alpha channel of every played-back canvas (this package's player and the reference stack) must equal the source alpha exactly")
}
