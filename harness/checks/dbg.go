package checks

import (
	"encoding/hex"
	"encoding/json"
	"fmt"
	webp "github.com/deepteams/webp"
	"github.com/deepteams/webp/internal/dsp"
	"github.com/deepteams/webp/internal/lossless"
	"github.com/deepteams/webp/internal/zzverif/arb"
	"os"
	"time"

	"github.com/deepteams/webp/internal/lossy"
	"github.com/deepteams/webp/internal/zzverif/fw"
	"github.com/deepteams/webp/internal/zzverif/imgs"
	"github.com/deepteams/webp/internal/zzverif/refdec"
	"github.com/deepteams/webp/internal/zzverif/riffwalk"
)

// DBG is a development aid, not a registered property check:
//
//	harness DBG quick -out /dev/null vp8diff <file>     compare VP8 planes repo vs reference
//	harness DBG quick -out /dev/null c02file <json>     write the bytes of a C02 case to /tmp
func init() {
	fw.Register(&fw.Check{ID: "DBG", Level: "other", Run: func(e *fw.Env, r *fw.Result) {
		pin()
		if len(e.Args) < 2 {
			return
		}
		switch e.Args[0] {
		case "c02file":
			raw, err := os.ReadFile(e.Args[1])
			if err != nil {
				panic(err)
			}
			var v fw.Violation
			json.Unmarshal(raw, &v)
			var cs c02Case
			json.Unmarshal(v.Replay, &cs)
			src := imgs.Make(cs.Img.W, cs.Img.H, cs.Img.Content, cs.Img.Alpha, cs.Seed)
			data, _, _ := encode(src, cs.opts())
			os.WriteFile("/tmp/c02case.webp", data, 0o644)
			fmt.Println("wrote /tmp/c02case.webp", len(data))
		case "vp8diff":
			data, err := os.ReadFile(e.Args[1])
			if err != nil {
				panic(err)
			}
			f, err := riffwalk.Parse(data)
			if err != nil {
				panic(err)
			}
			fr := &f.Frames[0]
			fmt.Printf("vp8 hdr: %+v\n", *fr.VP8)
			ref, _ := refdec.DecodeVP8(fr.Bitstream, false)
			refNF, _ := refdec.DecodeVP8(fr.Bitstream, true)
			dec, w, h, y, ys, u, v, uvs, err := lossy.DecodeFrame(fr.Bitstream)
			if err != nil {
				panic(err)
			}
			defer lossy.ReleaseDecoder(dec)
			n := 0
			for j := 0; j < h; j++ {
				for i := 0; i < w; i++ {
					a := ref.Y[ref.YOffset(i, j)]
					b := y[j*ys+i]
					if a != b {
						if n < 40 {
							fmt.Printf("Y(%d,%d) repo %d ref %d refNoFilter %d\n", i, j, b, a, refNF.Y[refNF.YOffset(i, j)])
						}
						n++
					}
				}
			}
			fmt.Println("Y diffs:", n)
			n = 0
			for j := 0; j < (h+1)/2; j++ {
				for i := 0; i < (w+1)/2; i++ {
					o := ref.COffset(2*i, 2*j)
					if ref.Cb[o] != u[j*uvs+i] || ref.Cr[o] != v[j*uvs+i] {
						if n < 20 {
							fmt.Printf("C(%d,%d) repo %d/%d ref %d/%d\n", i, j, u[j*uvs+i], v[j*uvs+i], ref.Cb[o], ref.Cr[o])
						}
						n++
					}
				}
			}
			fmt.Println("C diffs:", n)
		}
	}})
	_ = imgs.Make
}

func init() {
	fw.Register(&fw.Check{ID: "DBGT", Level: "other", Run: func(e *fw.Env, r *fw.Result) {
		for _, pol := range []string{"fresh", "recent"} {
			pin()
			if pol == "recent" {
				setPoolsMostRecent()
			}
			img := imgs.Make(8, 8, "c4", "opaque", 1)
			for _, ll := range []bool{true, false} {
				o := webp.DefaultOptions()
				o.Lossless = ll
				t0 := time.Now()
				for i := 0; i < 200; i++ {
					encode(img, o)
				}
				fmt.Printf("pool=%s lossless=%v: %.3f ms/encode\n", pol, ll, time.Since(t0).Seconds()*1000/200)
			}
		}
	}})
}

func init() {
	fw.Register(&fw.Check{ID: "DBG3", Level: "other", Run: func(e *fw.Env, r *fw.Result) {
		pin()
		raw, _ := os.ReadFile(e.Args[0])
		var v fw.Violation
		json.Unmarshal(raw, &v)
		var rp c03Replay
		json.Unmarshal(v.Replay, &rp)
		b, _ := hex.DecodeString(rp.Hex)
		fmt.Println(rp.Desc)
		_, err := lossless.DecodeVP8L(b)
		fmt.Println("repo:", err)
		m, err2 := refdec.DecodeVP8L(b)
		fmt.Println("ximage:", err2, m != nil)
		ok, w, h, _, aerr := arb.RGBA(riffwalk.RIFF(riffwalk.ChunkBytes("VP8L", b)))
		fmt.Println("libwebp:", ok, w, h, aerr)
		os.WriteFile("/tmp/c03/stream.webp", riffwalk.RIFF(riffwalk.ChunkBytes("VP8L", b)), 0o644)
	}})
}

func init() {
	fw.Register(&fw.Check{ID: "DBG4", Level: "other", Run: func(e *fw.Env, r *fw.Result) {
		pin()
		raw, _ := os.ReadFile(e.Args[0])
		var v fw.Violation
		json.Unmarshal(raw, &v)
		var rp c04Replay
		json.Unmarshal(v.Replay, &rp)
		b, _ := hex.DecodeString(rp.Hex)
		dec, w, h, y, ys, _, _, _, err := lossy.DecodeFrame(b)
		if err != nil {
			fmt.Println("err", err)
			return
		}
		defer lossy.ReleaseDecoder(dec)
		var out []byte
		for j := 0; j < h; j++ {
			out = append(out, y[j*ys:j*ys+w]...)
		}
		fmt.Println(rp.Desc)
		fmt.Println("Y digest", fw.Digest(out), "first row", out[:w])
	}})
}

func init() {
	fw.Register(&fw.Check{ID: "DBG5", Level: "other", Run: func(e *fw.Env, r *fw.Result) {
		pin()
		n := 0
		for _, f := range vp8Corpus(e.Seed) {
			pf, err := riffwalk.Parse(f.Data)
			if err != nil {
				continue
			}
			if v := c04JudgeFrame(pf.Frames[0].Bitstream); v != "" {
				n++
				if n < 8 {
					fmt.Println(f.Name, "=>", v)
				}
			}
		}
		fmt.Println("violations vs reference:", n, "arbiter:", arb.Available())
	}})
}

func refTransformOne(in []int16, dst []byte, stride int) {
	mul1 := func(a int) int { return ((a * 20091) >> 16) + a }
	mul2 := func(a int) int { return (a * 35468) >> 16 }
	var tmp [16]int
	for i := 0; i < 4; i++ {
		a := int(in[i]) + int(in[8+i])
		b := int(in[i]) - int(in[8+i])
		c := mul2(int(in[4+i])) - mul1(int(in[12+i]))
		d := mul1(int(in[4+i])) + mul2(int(in[12+i]))
		tmp[4*i+0] = a + d
		tmp[4*i+1] = b + c
		tmp[4*i+2] = b - c
		tmp[4*i+3] = a - d
	}
	clip := func(v int) byte {
		if v < 0 {
			return 0
		}
		if v > 255 {
			return 255
		}
		return byte(v)
	}
	for i := 0; i < 4; i++ {
		dc := tmp[i] + 4
		a := dc + tmp[8+i]
		b := dc - tmp[8+i]
		c := mul2(tmp[4+i]) - mul1(tmp[12+i])
		d := mul1(tmp[4+i]) + mul2(tmp[12+i])
		dst[i*stride+0] = clip(int(dst[i*stride+0]) + (a+d)>>3)
		dst[i*stride+1] = clip(int(dst[i*stride+1]) + (b+c)>>3)
		dst[i*stride+2] = clip(int(dst[i*stride+2]) + (b-c)>>3)
		dst[i*stride+3] = clip(int(dst[i*stride+3]) + (a-d)>>3)
	}
}

func init() {
	fw.Register(&fw.Check{ID: "DBG6", Level: "other", Run: func(e *fw.Env, r *fw.Result) {
		vals := []int16{0, 1, -1, 2047, -2048, 11304, -11304, 20448, -20448, 32767, -32768}
		bad := 0
		for _, dc := range vals {
			for pos := 1; pos < 16; pos++ {
				for _, ac := range vals {
					for _, pred := range []byte{0, 128, 255} {
						var in [32]int16
						in[0], in[pos] = dc, ac
						want := make([]byte, 4*dsp.BPS+8)
						got := make([]byte, 4*dsp.BPS+8)
						for i := range want {
							want[i], got[i] = pred, pred
						}
						refTransformOne(in[:16], want, dsp.BPS)
						dsp.Transform(in[:], got, false)
						for y := 0; y < 4; y++ {
							for x := 0; x < 4; x++ {
								if want[y*dsp.BPS+x] != got[y*dsp.BPS+x] {
									bad++
									if bad < 6 {
										fmt.Printf("Transform dc=%d ac[%d]=%d pred=%d: (%d,%d) got %d want %d\n", dc, pos, ac, pred, x, y, got[y*dsp.BPS+x], want[y*dsp.BPS+x])
									}
								}
							}
						}
					}
				}
			}
		}
		fmt.Println("Transform mismatching samples:", bad)
	}})
}

func init() {
	fw.Register(&fw.Check{ID: "DBG7", Level: "other", Run: func(e *fw.Env, r *fw.Result) {
		t0 := time.Now()
		calls := c11Alphabet(e.Seed)
		fmt.Printf("alphabet built in %.2fs\n", time.Since(t0).Seconds())
		pin()
		for _, c := range calls {
			t := time.Now()
			c.run()
			if d := time.Since(t); d > 20*time.Millisecond {
				fmt.Printf("%6.0f ms  %s\n", d.Seconds()*1000, c.name)
			}
		}
	}})
}
