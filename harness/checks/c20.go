package checks

import (
	"bytes"
	"fmt"
	"image"
	"image/color"
	"math"
	"strings"

	webp "github.com/deepteams/webp"
	"github.com/deepteams/webp/internal/zzverif/choice"
	"github.com/deepteams/webp/internal/zzverif/fw"
	"github.com/deepteams/webp/internal/zzverif/imgs"
	"github.com/deepteams/webp/internal/zzverif/riffwalk"
)

// C20 — option handling is total and matches its documentation.

const (
	minInt = -1 << 63
	maxInt = 1<<63 - 1
)

func fField(name string, vals []float32, set func(o *webp.EncoderOptions, v float32)) optField {
	f := optField{name: name, vals: []string{"default"}}
	for _, v := range vals {
		f.vals = append(f.vals, fmt.Sprint(v))
	}
	f.set = func(o *webp.EncoderOptions, i int) { set(o, vals[i-1]) }
	return f
}

func bField(name string, set func(o *webp.EncoderOptions)) optField {
	return optField{name, []string{"default", "true"}, func(o *webp.EncoderOptions, i int) { set(o) }}
}

var negZero = float32(math.Copysign(0, -1))

// c20Fields: every field at its boundaries, just outside, extremes, sentinels.
var c20Fields = []optField{
	bField("Lossless", func(o *webp.EncoderOptions) { o.Lossless = true }),
	fField("Quality", []float32{-1, -0.0001, negZero, 0, 1e-30, 0.5, 99.999, 100, 100.0001, 101, float32(math.NaN()), float32(math.Inf(1)), float32(math.Inf(-1))},
		func(o *webp.EncoderOptions, v float32) { o.Quality = v }),
	intField("Method", []int{minInt, -1, 0, 1, 5, 6, 7, maxInt}, func(o *webp.EncoderOptions, v int) { o.Method = v }),
	intField("Preset", []int{-1, 1, 5, 6, maxInt}, func(o *webp.EncoderOptions, v int) { o.Preset = webp.Preset(v) }),
	intField("TargetSize", []int{minInt, -1, 1, 200, maxInt}, func(o *webp.EncoderOptions, v int) { o.TargetSize = v }),
	fField("TargetPSNR", []float32{-1, negZero, 30, 45, 1000, float32(math.NaN()), float32(math.Inf(1))},
		func(o *webp.EncoderOptions, v float32) { o.TargetPSNR = v }),
	intField("Preprocessing", []int{-1, 1, 2, 3, 4, maxInt}, func(o *webp.EncoderOptions, v int) { o.Preprocessing = v }),
	intField("SNSStrength", []int{minInt, -2, 0, 1, 50, 99, 100, 101, maxInt}, func(o *webp.EncoderOptions, v int) { o.SNSStrength = v }),
	intField("FilterStrength", []int{minInt, -2, 0, 1, 60, 99, 100, 101, maxInt}, func(o *webp.EncoderOptions, v int) { o.FilterStrength = v }),
	intField("FilterSharpness", []int{-1, 1, 7, 8, maxInt}, func(o *webp.EncoderOptions, v int) { o.FilterSharpness = v }),
	intField("FilterType", []int{minInt, -2, 0, 1, 2}, func(o *webp.EncoderOptions, v int) { o.FilterType = v }),
	intField("Partitions", []int{-1, 1, 3, 4, maxInt}, func(o *webp.EncoderOptions, v int) { o.Partitions = v }),
	intField("Segments", []int{minInt, -2, 0, 1, 2, 4, 5, maxInt}, func(o *webp.EncoderOptions, v int) { o.Segments = v }),
	intField("Pass", []int{minInt, -2, 0, 1, 2, 10, 11, maxInt}, func(o *webp.EncoderOptions, v int) { o.Pass = v }),
	bField("EmulateJpegSize", func(o *webp.EncoderOptions) { o.EmulateJpegSize = true }),
	intField("QMin", []int{minInt, -1, 1, 50, 100, 101, maxInt}, func(o *webp.EncoderOptions, v int) { o.QMin = v }),
	intField("QMax", []int{minInt, -2, 0, 1, 50, 100, 101, maxInt}, func(o *webp.EncoderOptions, v int) { o.QMax = v }),
	intField("AlphaCompression", []int{minInt, -2, 0, 1, 2, maxInt}, func(o *webp.EncoderOptions, v int) { o.AlphaCompression = v }),
	intField("AlphaFiltering", []int{minInt, -2, 0, 1, 2, 3, maxInt}, func(o *webp.EncoderOptions, v int) { o.AlphaFiltering = v }),
	intField("AlphaQuality", []int{minInt, -2, 0, 1, 99, 100, 101, maxInt}, func(o *webp.EncoderOptions, v int) { o.AlphaQuality = v }),
	bField("UseSharpYUV", func(o *webp.EncoderOptions) { o.UseSharpYUV = true }),
	bField("Exact", func(o *webp.EncoderOptions) { o.Exact = true }),
}

// equivalences documented in EncoderOptions / validateConfig / Encode.
type equiv struct {
	name string
	a, b func(o *webp.EncoderOptions) // two ways of writing the same request
	also string                       // extra context requirement ("lossless": only under Lossless)
}

var c20Equivs = []equiv{
	{"SNSStrength<0 = 50", func(o *webp.EncoderOptions) { o.SNSStrength = -7 }, func(o *webp.EncoderOptions) { o.SNSStrength = 50 }, ""},
	{"FilterStrength<0 = 60", func(o *webp.EncoderOptions) { o.FilterStrength = -1 }, func(o *webp.EncoderOptions) { o.FilterStrength = 60 }, ""},
	{"FilterType<0 = 1", func(o *webp.EncoderOptions) { o.FilterType = -3 }, func(o *webp.EncoderOptions) { o.FilterType = 1 }, ""},
	{"Segments<0 = 4", func(o *webp.EncoderOptions) { o.Segments = -1 }, func(o *webp.EncoderOptions) { o.Segments = 4 }, ""},
	{"Segments 0 = 4", func(o *webp.EncoderOptions) { o.Segments = 0 }, func(o *webp.EncoderOptions) { o.Segments = 4 }, ""},
	{"Pass<0 = 1", func(o *webp.EncoderOptions) { o.Pass = -1 }, func(o *webp.EncoderOptions) { o.Pass = 1 }, ""},
	{"Pass 0 = 1", func(o *webp.EncoderOptions) { o.Pass = 0 }, func(o *webp.EncoderOptions) { o.Pass = 1 }, ""},
	{"QMax<0 = 100", func(o *webp.EncoderOptions) { o.QMax = -1 }, func(o *webp.EncoderOptions) { o.QMax = 100 }, ""},
	{"AlphaCompression<0 = 1", func(o *webp.EncoderOptions) { o.AlphaCompression = -1 }, func(o *webp.EncoderOptions) { o.AlphaCompression = 1 }, ""},
	{"AlphaFiltering<0 = 1", func(o *webp.EncoderOptions) { o.AlphaFiltering = -1 }, func(o *webp.EncoderOptions) { o.AlphaFiltering = 1 }, ""},
	{"AlphaQuality<0 = 100", func(o *webp.EncoderOptions) { o.AlphaQuality = -1 }, func(o *webp.EncoderOptions) { o.AlphaQuality = 100 }, ""},
	{"EmulateJpegSize has no effect", func(o *webp.EncoderOptions) { o.EmulateJpegSize = true }, func(o *webp.EncoderOptions) { o.EmulateJpegSize = false }, ""},
	{"Preprocessing is lossy-only", func(o *webp.EncoderOptions) { o.Preprocessing = 3 }, func(o *webp.EncoderOptions) { o.Preprocessing = 0 }, "lossless"},
	{"AlphaCompression is lossy-only", func(o *webp.EncoderOptions) { o.AlphaCompression = 0 }, func(o *webp.EncoderOptions) { o.AlphaCompression = 1 }, "lossless"},
	{"AlphaFiltering is lossy-only", func(o *webp.EncoderOptions) { o.AlphaFiltering = 2 }, func(o *webp.EncoderOptions) { o.AlphaFiltering = 0 }, "lossless"},
	{"AlphaQuality is lossy-only", func(o *webp.EncoderOptions) { o.AlphaQuality = 10 }, func(o *webp.EncoderOptions) { o.AlphaQuality = 100 }, "lossless"},
}

type c20Case struct {
	Part  string // total | equiv | nil-default | boundary
	Img   c02Img
	Dev   map[string]int
	Equiv string `json:",omitempty"`
	// Ctx20: the context (Dev) of an equivalence case indexes c20Fields (boundary and out-of-range
	// values) instead of c02Fields (valid values): a sentinel and its documented default must be
	// accepted or rejected TOGETHER whatever else is in the options
	Ctx20 bool   `json:",omitempty"`
	Bnd   string `json:",omitempty"`
	WKind string `json:",omitempty"` // writer-fault part: which output kind
	WAt   int    `json:",omitempty"` // ... the writer accepts this many bytes in total
	WPart bool   `json:",omitempty"` // ... and reports the bytes it took from the failing Write (else 0)
	WPic  int    `json:",omitempty"` // ... picture variant (0: even image payload, 1: odd)
	Seed  int64
}

// c20WriterKinds: outputs that take different write paths (simple and extended container,
// streaming and buffered lossless, one Write or several).
var c20WriterKinds = []struct {
	name string
	opt  func() *webp.EncoderOptions
}{
	{"lossy", func() *webp.EncoderOptions { return lossyOpts(nil) }},
	{"lossy-exif", func() *webp.EncoderOptions {
		return lossyOpts(func(o *webp.EncoderOptions) { o.EXIF = []byte{1, 2, 3} })
	}},
	{"lossless", func() *webp.EncoderOptions { return &webp.EncoderOptions{Lossless: true, Quality: 75, Method: 4} }},
	{"lossless-icc-xmp", func() *webp.EncoderOptions {
		return &webp.EncoderOptions{Lossless: true, Quality: 75, Method: 4, ICC: []byte{7}, XMP: []byte{8, 9}}
	}},
}

// c20WriterImg returns the v-th picture for an output kind; v = 0, 1 are chosen (by searching the
// filler) so that the image chunk's payload has even and odd length: the pad byte is a Write too.
func c20WriterImg(kind string, seed int64, v int) *image.NRGBA {
	mk := func(sd int64) *image.NRGBA {
		if strings.HasPrefix(kind, "lossy") {
			return imgs.Make(16, 16, "noise", "agradient", sd) // alpha: extended container, ALPH + VP8 chunks
		}
		return imgs.Make(9, 5, "noise", "binary", sd)
	}
	var opt *webp.EncoderOptions
	for _, k := range c20WriterKinds {
		if k.name == kind {
			opt = k.opt()
		}
	}
	for sd := seed; sd < seed+200; sd++ {
		f, err := riffwalk.Parse(mustEncode(mk(sd), opt))
		if err == nil && len(f.Frames) == 1 && len(f.Frames[0].Bitstream)%2 == v%2 {
			return mk(sd)
		}
	}
	return mk(seed)
}

// limitWriter accepts limit bytes in total, then fails.
type limitWriter struct {
	limit   int
	partial bool
	got     []byte
	failed  bool
}

func (w *limitWriter) Write(p []byte) (int, error) {
	room := w.limit - len(w.got)
	if len(p) <= room {
		w.got = append(w.got, p...)
		return len(p), nil
	}
	w.failed = true
	if w.partial && room > 0 {
		w.got = append(w.got, p[:room]...)
		return room, fmt.Errorf("device full")
	}
	return 0, fmt.Errorf("device full")
}

func (cs *c20Case) key() string {
	switch cs.Part {
	case "boundary":
		return "options boundary-image " + cs.Bnd
	case "equiv":
		if cs.Ctx20 {
			return fmt.Sprintf("options equivalence {%s} on %dx%d %s/%s boundary-ctx{%s}", cs.Equiv, cs.Img.W, cs.Img.H, cs.Img.Content, cs.Img.Alpha, devString(cs.Dev, c20Fields))
		}
		return fmt.Sprintf("options equivalence {%s} on %dx%d %s/%s ctx{%s}", cs.Equiv, cs.Img.W, cs.Img.H, cs.Img.Content, cs.Img.Alpha, devString(cs.Dev, c02Fields))
	case "nil-default":
		return fmt.Sprintf("options nil=DefaultOptions on %dx%d %s/%s", cs.Img.W, cs.Img.H, cs.Img.Content, cs.Img.Alpha)
	case "writer-fault":
		return fmt.Sprintf("options writer-fault %s pic%d after %d bytes partial=%v", cs.WKind, cs.WPic, cs.WAt, cs.WPart)
	}
	return fmt.Sprintf("options total %dx%d %s/%s opts{%s}", cs.Img.W, cs.Img.H, cs.Img.Content, cs.Img.Alpha, devString(cs.Dev, c20Fields))
}

// constImg is a generic image without backing store.
type constImg struct {
	r image.Rectangle
	c color.NRGBA
}

func (c constImg) ColorModel() color.Model { return color.NRGBAModel }
func (c constImg) Bounds() image.Rectangle { return c.r }
func (c constImg) At(x, y int) color.Color { return c.c }

type failWriter struct{ n int }

func (f *failWriter) Write(p []byte) (int, error) { f.n++; return 0, fmt.Errorf("write refused") }

func (cs *c20Case) run() string {
	src := imgs.Make(cs.Img.W, cs.Img.H, cs.Img.Content, cs.Img.Alpha, cs.Seed)
	switch cs.Part {
	case "total":
		o := webp.DefaultOptions()
		for _, f := range c20Fields {
			if i, ok := cs.Dev[f.name]; ok && i > 0 {
				f.set(o, i)
			}
		}
		data, err, p := encode(src, o)
		if p != "" {
			return "Encode panicked: " + first(p)
		}
		if err != nil {
			if len(data) != 0 {
				// an error after bytes were written is tolerated only if nothing usable was produced: report it
				return fmt.Sprintf("Encode returned an error (%v) after writing %d bytes", err, len(data))
			}
			return ""
		}
		if d := validateEncoded(data, src, nil); d != "" {
			return "Encode returned nil but " + d
		}
		return ""
	case "writer-fault":
		for _, k := range c20WriterKinds {
			if k.name != cs.WKind {
				continue
			}
			w := &limitWriter{limit: cs.WAt, partial: cs.WPart}
			var err error
			p := func() (p string) {
				defer func() {
					if r := recover(); r != nil {
						p = fmt.Sprint(r)
					}
				}()
				err = webp.Encode(w, c20WriterImg(k.name, cs.Seed, cs.WPic), k.opt())
				return ""
			}()
			if p != "" {
				return "Encode panicked when the writer failed: " + first(p)
			}
			if !w.failed {
				return "" // the output is shorter than the limit: nothing was injected
			}
			if err == nil {
				return fmt.Sprintf("Encode returned nil although the writer failed after %d bytes (the file is cut short)", len(w.got))
			}
			return ""
		}
		return "unknown writer kind " + cs.WKind
	case "nil-default":
		a, e1, p1 := encode(src, nil)
		b, e2, p2 := encode(src, webp.DefaultOptions())
		if p1+p2 != "" {
			return "Encode panicked: " + first(p1+p2)
		}
		if e1 != nil || e2 != nil {
			return fmt.Sprintf("nil options / DefaultOptions() rejected: %v / %v", e1, e2)
		}
		if !bytes.Equal(a, b) {
			return fmt.Sprintf("nil options and DefaultOptions() give different bytes (%s vs %s)", fw.Digest(a), fw.Digest(b))
		}
		return ""
	case "equiv":
		var eq *equiv
		for i := range c20Equivs {
			if c20Equivs[i].name == cs.Equiv {
				eq = &c20Equivs[i]
			}
		}
		if eq == nil {
			return "unknown equivalence " + cs.Equiv
		}
		mk := func(f func(o *webp.EncoderOptions)) *webp.EncoderOptions {
			o := webp.DefaultOptions()
			fields := c02Fields
			if cs.Ctx20 {
				fields = c20Fields
			}
			for _, fl := range fields {
				if i, ok := cs.Dev[fl.name]; ok && i > 0 {
					fl.set(o, i)
				}
			}
			if eq.also == "lossless" {
				o.Lossless = true
			}
			f(o)
			return o
		}
		a, e1, p1 := encode(src, mk(eq.a))
		b, e2, p2 := encode(src, mk(eq.b))
		if p1+p2 != "" {
			return "Encode panicked: " + first(p1+p2)
		}
		if (e1 == nil) != (e2 == nil) {
			return fmt.Sprintf("one form is rejected, the other accepted: %v / %v", e1, e2)
		}
		if e1 != nil {
			return ""
		}
		if !bytes.Equal(a, b) {
			return fmt.Sprintf("documented-equivalent option values give different bytes (%d vs %d bytes, %s vs %s)", len(a), len(b), fw.Digest(a), fw.Digest(b))
		}
		return ""
	case "boundary":
		var buf bytes.Buffer
		call := func(f func() error) (err error, p string) {
			defer func() {
				if r := recover(); r != nil {
					p = fmt.Sprint(r)
				}
			}()
			return f(), ""
		}
		one := imgs.Make(1, 1, "flat", "opaque", 0)
		mustErr := func(what string, f func() error) string {
			err, p := call(f)
			if p != "" {
				return what + ": panic: " + p
			}
			if err == nil {
				return what + ": no error returned"
			}
			return ""
		}
		mustOK := func(what string, img image.Image, w, h int, o *webp.EncoderOptions) string {
			buf.Reset()
			err, p := call(func() error { return webp.Encode(&buf, img, o) })
			if p != "" {
				return what + ": panic: " + p
			}
			if err != nil {
				return what + ": rejected: " + err.Error()
			}
			got, derr, dp := decode(buf.Bytes())
			if dp != "" || derr != nil {
				return what + ": output does not decode: " + dp + fmt.Sprint(derr)
			}
			if b := got.Bounds(); b.Dx() != w || b.Dy() != h {
				return fmt.Sprintf("%s: decoded %dx%d", what, b.Dx(), b.Dy())
			}
			return ""
		}
		switch cs.Bnd {
		case "nil-writer":
			return mustErr("nil writer", func() error { return webp.Encode(nil, one, nil) })
		case "nil-image":
			return mustErr("nil image", func() error { return webp.Encode(&buf, nil, nil) })
		case "nil-image-nil-opts-lossless":
			return mustErr("nil image", func() error { return webp.Encode(&buf, nil, &webp.EncoderOptions{Lossless: true}) })
		case "empty-bounds":
			return mustErr("empty image", func() error { return webp.Encode(&buf, image.NewNRGBA(image.Rect(0, 0, 0, 0)), nil) })
		case "empty-width":
			return mustErr("0 x 5 image", func() error { return webp.Encode(&buf, image.NewNRGBA(image.Rect(3, 3, 3, 8)), nil) })
		case "inverted-bounds":
			return mustErr("inverted bounds", func() error {
				return webp.Encode(&buf, constImg{image.Rectangle{image.Pt(5, 5), image.Pt(1, 1)}, color.NRGBA{1, 2, 3, 255}}, nil)
			})
		case "16384x1-lossy":
			return mustErr("16384 x 1", func() error {
				return webp.Encode(&buf, constImg{image.Rect(0, 0, 16384, 1), color.NRGBA{1, 2, 3, 255}}, nil)
			})
		case "1x16384-lossless":
			return mustErr("1 x 16384", func() error {
				return webp.Encode(&buf, constImg{image.Rect(0, 0, 1, 16384), color.NRGBA{1, 2, 3, 255}}, &webp.EncoderOptions{Lossless: true, Quality: 75, Method: 4})
			})
		case "16383x1-lossless":
			return mustOK("16383 x 1 lossless", constImg{image.Rect(0, 0, 16383, 1), color.NRGBA{1, 2, 3, 255}}, 16383, 1, &webp.EncoderOptions{Lossless: true, Quality: 75, Method: 4})
		case "1x16383-lossy":
			return mustOK("1 x 16383 lossy", constImg{image.Rect(0, 0, 1, 16383), color.NRGBA{1, 2, 3, 200}}, 1, 16383, nil)
		case "16383x2-lossy":
			return mustOK("16383 x 2 lossy", constImg{image.Rect(-5, -5, 16378, -3), color.NRGBA{9, 2, 3, 255}}, 16383, 2, nil)
		case "zero-options":
			// EncoderOptions{}: accepted or rejected, never a panic, and if accepted the file is valid
			data, err, p := encode(src, &webp.EncoderOptions{})
			if p != "" {
				return "EncoderOptions{}: panic: " + first(p)
			}
			if err == nil {
				if d := validateEncoded(data, src, nil); d != "" {
					return "EncoderOptions{}: " + d
				}
			}
			return ""
		case "failing-writer":
			fwr := &failWriter{}
			err, p := call(func() error { return webp.Encode(fwr, src, nil) })
			if p != "" {
				return "failing writer: panic: " + p
			}
			if err == nil {
				return "failing writer: Encode returned nil although the writer refused every byte"
			}
			err, p = call(func() error {
				return webp.Encode(&failWriter{}, src, &webp.EncoderOptions{Lossless: true, Quality: 75, Method: 4})
			})
			if p != "" {
				return "failing writer (lossless): panic: " + p
			}
			if err == nil {
				return "failing writer (lossless): Encode returned nil although the writer refused every byte"
			}
			return ""
		}
		return "unknown boundary case"
	}
	return "unknown part"
}

var c20Boundaries = []string{"nil-writer", "nil-image", "nil-image-nil-opts-lossless", "empty-bounds", "empty-width", "inverted-bounds", "16384x1-lossy", "1x16384-lossless", "16383x1-lossless", "1x16383-lossy", "16383x2-lossy", "zero-options", "failing-writer"}

func init() {
	registerCases[c20Case]("C20", "exploration",
		"EncoderOptions: every field at its boundary values (min-1, min, min+1, sentinels, max-1, max, max+1, MinInt, MaxInt; floats: NaN, +-Inf, -0, tiny, 100.0001), all (field,value) pairs across fields (deviation bound 2; thorough: all triples, bound 3, and a fourth picture) x 3 pictures; oracle: no panic, error XOR conformant decodable file.  Plus every documented equivalence (sentinel = explicit default, inert fields) under every single-field context (bound 1) of valid values, and again under every single-field context of boundary / out-of-range values (the two forms must be accepted or rejected together), nil = DefaultOptions(), and boundary images (nil arguments, empty/inverted bounds, 16383 / 16384 px, failing writer), and writer faults: 4 output kinds (simple / extended container, streaming / buffered lossless) x 2 pictures (even and odd image payload) x a writer that accepts n bytes and then fails, for EVERY n below the output length, reporting 0 or the bytes it took: no panic, and never a nil error for a file that was cut short",
		[]string{"worker count pinned to 1, pools never reuse", "validator and independent decoder as in C02"},
		func(e *fw.Env) int {
			if e.Quick() {
				return 2
			}
			return 3 // thorough: all triples of field deviations
		},
		func(e *fw.Env) func(c *choice.Ctx) caseI {
			images := []c02Img{{1, 1, "flat", "opaque"}, {16, 16, "noise", "agradient"}, {17, 5, "gradient", "opaque"}}
			if !e.Quick() {
				images = append(images, c02Img{33, 17, "c4", "binary"})
			}
			wlen := make([]int, 2*len(c20WriterKinds))
			for k, wk := range c20WriterKinds {
				for v := 0; v < 2; v++ {
					wlen[2*k+v] = len(mustEncode(c20WriterImg(wk.name, e.Seed, v), wk.opt()))
				}
			}
			return func(c *choice.Ctx) caseI {
				cs := &c20Case{Seed: e.Seed, Dev: map[string]int{}}
				switch c.PickFree(6, "part") {
				case 5:
					cs.Part = "equiv"
					cs.Ctx20 = true
					eqImgs := []c02Img{images[1], images[2]}
					cs.Img = eqImgs[c.PickFree(len(eqImgs), "img")]
					cs.Equiv = c20Equivs[c.PickFree(len(c20Equivs), "equiv")].name
					// context: one other field at a boundary / out-of-range value
					for _, f := range c20Fields {
						if i := c.PickCost(len(f.vals), 2, f.name); i > 0 {
							cs.Dev[f.name] = i
						}
					}
				case 4:
					// environment answers of the io.Writer: it accepts n bytes in total and then fails, for
					// EVERY n below the output length, reporting either 0 or the bytes it still took
					cs.Part = "writer-fault"
					cs.Img = images[0]
					k := c.PickFree(len(c20WriterKinds), "kind")
					cs.WKind = c20WriterKinds[k].name
					cs.WPic = c.PickFree(2, "payload parity")
					cs.WAt = c.PickFree(wlen[2*k+cs.WPic], "bytes accepted")
					cs.WPart = c.PickFree(2, "partial") == 1
				case 0:
					cs.Part = "total"
					cs.Img = images[c.PickFree(len(images), "img")]
					for _, f := range c20Fields {
						if i := c.Pick(len(f.vals), f.name); i > 0 {
							cs.Dev[f.name] = i
						}
					}
				case 1:
					cs.Part = "equiv"
					// the third picture is large enough (4x3 macroblocks, flat and noisy
					// blocks side by side) for segment-map and multi-segment effects
					eqImgs := []c02Img{images[1], images[2], {64, 48, "regions4", "opaque"}, {96, 80, "patchwork", "opaque"}}
					cs.Img = eqImgs[c.PickFree(len(eqImgs), "img")]
					cs.Equiv = c20Equivs[c.PickFree(len(c20Equivs), "equiv")].name
					// context: one other field away from default (cost 2 => at most one)
					for _, f := range c02Fields {
						if i := c.PickCost(len(f.vals), 2, f.name); i > 0 {
							cs.Dev[f.name] = i
						}
					}
				case 2:
					cs.Part = "nil-default"
					cs.Img = c02Images[c.PickFree(len(c02Images), "img")]
				case 3:
					cs.Part = "boundary"
					cs.Img = images[1]
					cs.Bnd = c20Boundaries[c.PickFree(len(c20Boundaries), "bnd")]
				}
				return cs
			}
		})
}
