// Package checks holds the per-property check bodies (DESIGN.md section 3).
package checks

import (
	"bytes"
	"fmt"
	"image"
	"runtime"
	"time"

	webp "github.com/deepteams/webp"
	"github.com/deepteams/webp/internal/zzverif/fw"
	"github.com/deepteams/webp/internal/zzverif/vhook"
	"github.com/deepteams/webp/internal/zzverif/vsync"
	xwebp "github.com/deepteams/webp/internal/zzverif/ximage/webp"
)

// pin fixes everything a check does not study (DESIGN.md 2.2a): one worker at
// every GOMAXPROCS call site, pools that never reuse.
func pin() {
	vhook.ClearSites()
	vhook.SetDefault(1)
	vsync.SetPoolPolicy(vsync.PoolFresh, nil)
}

func shards16(e *fw.Env) int { return 16 }
func shards1(e *fw.Env) int  { return 1 }

// encode calls webp.Encode and recovers panics.
func encode(img image.Image, o *webp.EncoderOptions) (out []byte, err error, panicked string) {
	defer func() {
		if r := recover(); r != nil {
			buf := make([]byte, 2048)
			buf = buf[:runtime.Stack(buf, false)]
			panicked = fmt.Sprintf("%v\n%s", r, buf)
		}
	}()
	var b bytes.Buffer
	err = webp.Encode(&b, img, o)
	return b.Bytes(), err, ""
}

func decode(data []byte) (img image.Image, err error, panicked string) {
	defer func() {
		if r := recover(); r != nil {
			buf := make([]byte, 2048)
			buf = buf[:runtime.Stack(buf, false)]
			panicked = fmt.Sprintf("%v\n%s", r, buf)
		}
	}()
	img, err = webp.Decode(bytes.NewReader(data))
	return
}

func xdecode(data []byte) (img image.Image, err error) {
	defer func() {
		if r := recover(); r != nil {
			err = fmt.Errorf("reference decoder panic: %v", r)
		}
	}()
	return xwebp.Decode(bytes.NewReader(data))
}

var _ = time.Now
