// Package checks holds the per-property check bodies (DESIGN.md section 3).
package checks

import (
	"bytes"
	"encoding/json"
	"fmt"
	"github.com/deepteams/webp/internal/zzverif/arb"
	"github.com/deepteams/webp/internal/zzverif/choice"
	"image"
	"image/color"
	"runtime"
	"strings"
	"time"

	webp "github.com/deepteams/webp"
	"github.com/deepteams/webp/internal/zzverif/fw"
	"github.com/deepteams/webp/internal/zzverif/vhook"
	"github.com/deepteams/webp/internal/zzverif/vsync"
	xwebp "github.com/deepteams/webp/internal/zzverif/ximage/webp"
)

// pin fixes everything a check does not study (DESIGN.md 2.2a): one worker at
// every GOMAXPROCS call site, pools that never reuse.
func pin() {
	vhook.ClearSites()
	vhook.SetDefault(1)
	vsync.SetPoolPolicy(vsync.PoolFresh, nil)
}

func shards16(e *fw.Env) int { return 16 }
func shards1(e *fw.Env) int  { return 1 }

// encode calls webp.Encode and recovers panics.
func encode(img image.Image, o *webp.EncoderOptions) (out []byte, err error, panicked string) {
	defer func() {
		if r := recover(); r != nil {
			buf := make([]byte, 2048)
			buf = buf[:runtime.Stack(buf, false)]
			panicked = fmt.Sprintf("%v\n%s", r, buf)
		}
	}()
	var b bytes.Buffer
	err = webp.Encode(&b, img, o)
	return b.Bytes(), err, ""
}

func decode(data []byte) (img image.Image, err error, panicked string) {
	defer func() {
		if r := recover(); r != nil {
			buf := make([]byte, 2048)
			buf = buf[:runtime.Stack(buf, false)]
			panicked = fmt.Sprintf("%v\n%s", r, buf)
		}
	}()
	img, err = webp.Decode(bytes.NewReader(data))
	return
}

func xdecode(data []byte) (img image.Image, err error) {
	defer func() {
		if r := recover(); r != nil {
			err = fmt.Errorf("reference decoder panic: %v", r)
		}
	}()
	return xwebp.Decode(bytes.NewReader(data))
}

var _ = time.Now

// caseI is one enumerated case of a product-style check.
type caseI interface {
	key() string // identifies the input (known-findings key)
	run() string // "" = property held; otherwise the violation
}

// exploreCases enumerates build's choice tree (bound <0: full product; else
// deviation bound), executing the leaves of this shard.
func exploreCases(e *fw.Env, r *fw.Result, bound int, build func(c *choice.Ctx) caseI) {
	st := choice.Explore(choice.Config{Bound: bound, Shard: e.Shard, NShard: e.NShard, Stop: e.Expired}, func(c *choice.Ctx) {
		cs := build(c)
		if cs == nil {
			return
		}
		if !c.Mine() {
			return
		}
		if e.Expired() {
			r.Cap("deadline reached before the enumeration finished")
			return
		}
		r.Eval(1)
		d := cs.run()
		r.Distinct(cs.key())
		r.Sample(3, cs)
		if d != "" {
			if r.Confirm(2, d, cs.run) {
				r.Violate(cs.key(), d+" ["+cs.key()+"]", cs)
			}
		}
	})
	if st.Capped {
		r.Cap("deadline reached before the enumeration finished")
	}
	if n := oracleDisagreements.Load(); n > 0 {
		r.Count("oracle_disagreement_dropped", n)
	}
	r.SetInfo("libwebp_arbiter_available", arb.Available())
	if e.Shard == 0 {
		r.Count("leaves_enumerated", st.Runs)
		r.Count("max_picks", int64(st.MaxDepth))
	}
}

// register a product-style check with JSON replay.
func registerCases[T any, PT interface {
	*T
	caseI
}](id, level, rule string, assume []string, bound func(e *fw.Env) int, build func(e *fw.Env) func(c *choice.Ctx) caseI) {
	fw.Register(&fw.Check{
		ID: id, Level: level, Shards: shards16, Rule: rule, Assume: assume,
		Run: func(e *fw.Env, r *fw.Result) {
			pin()
			b := -1
			if bound != nil {
				b = bound(e)
			}
			if b >= 0 {
				r.SetInfo("deviation_bound_completed", b)
			}
			exploreCases(e, r, b, build(e))
		},
		Replay: func(e *fw.Env, raw json.RawMessage) string {
			pin()
			var cs T
			if err := json.Unmarshal(raw, &cs); err != nil {
				return "bad replay file: " + err.Error()
			}
			return PT(&cs).run()
		},
	})
}

func modelName(m color.Model) string {
	switch m {
	case color.NRGBAModel:
		return "NRGBA"
	case color.YCbCrModel:
		return "YCbCr"
	case color.RGBAModel:
		return "RGBA"
	case nil:
		return "nil"
	}
	return fmt.Sprintf("%T", m)
}

func setPoolsMostRecent() { vsync.SetPoolPolicy(vsync.PoolMostRecent, nil) }

func stripDigitsAfter(s string) string {
	var sb strings.Builder
	for _, r := range s {
		if r >= '0' && r <= '9' {
			sb.WriteByte('N')
		} else {
			sb.WriteRune(r)
		}
	}
	out := sb.String()
	for strings.Contains(out, "NN") {
		out = strings.ReplaceAll(out, "NN", "N")
	}
	return out
}

func tail(s string, n int) string {
	if len(s) > n {
		return s[len(s)-n:]
	}
	return s
}

func firstFatal(s string) string {
	for _, l := range strings.Split(s, "\n") {
		if strings.HasPrefix(l, "fatal error") || strings.HasPrefix(l, "panic") || strings.Contains(l, "signal") || strings.Contains(l, "out of memory") {
			return l
		}
	}
	return tail(s, 300)
}
