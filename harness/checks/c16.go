package checks

import (
	"bytes"
	"encoding/hex"
	"encoding/json"
	"fmt"
	"image"

	webp "github.com/deepteams/webp"
	"github.com/deepteams/webp/animation"
	"github.com/deepteams/webp/internal/zzverif/fw"
	"github.com/deepteams/webp/internal/zzverif/imgs"
	"github.com/deepteams/webp/internal/zzverif/riffwalk"
	"github.com/deepteams/webp/mux"
)

// C16 — header queries agree with what a full decode returns.

type c16File struct {
	Name    string
	Data    []byte
	Package bool // written by this package's encoder / animation encoder / muxer
}

// c16Assembled enumerates hand-assembled, mutually consistent containers.
func c16Assembled(seed int64) []c16File {
	pin()
	var out []c16File
	type bs struct {
		name     string
		fr       *riffwalk.Frame
		lossless bool
	}
	get := func(img image.Image, o *webp.EncoderOptions) *riffwalk.Frame {
		f, err := riffwalk.Parse(mustEncode(img, o))
		if err != nil {
			panic(err)
		}
		return &f.Frames[0]
	}
	ll := &webp.EncoderOptions{Lossless: true, Quality: 75, Method: 4}
	vp8 := get(imgs.Make(9, 7, "noise", "opaque", seed), nil)
	vp8a := get(imgs.Make(9, 7, "noise", "agradient", seed), nil) // has ALPH
	vp8aRaw := get(imgs.Make(9, 7, "noise", "agradient", seed), lossyOpts(func(o *webp.EncoderOptions) { o.AlphaCompression = 0 }))
	vp8l := get(imgs.Make(9, 7, "c4", "opaque", seed), ll)
	vp8la := get(imgs.Make(9, 7, "c4", "agradient", seed), ll)
	type alph struct {
		name string
		data []byte // nil: no ALPH chunk
		has  bool
	}
	evenAlpha, oddAlpha := vp8a.Alpha, vp8aRaw.Alpha
	if len(evenAlpha)%2 == 1 {
		evenAlpha, oddAlpha = oddAlpha, evenAlpha
	}
	alphs := []alph{{"noalph", nil, false}, {"alph-empty", []byte{}, true}, {"alph-a", evenAlpha, true}, {"alph-b", oddAlpha, true}}
	junk := riffwalk.ChunkBytes("JUNK", []byte{1, 2, 3})
	icc := riffwalk.ChunkBytes("ICCP", blob(5, 1))
	exif := riffwalk.ChunkBytes("EXIF", blob(4, 2))
	xmp := riffwalk.ChunkBytes("XMP ", blob(3, 3))
	images := []bs{{"vp8", vp8, false}, {"vp8l", vp8l, true}, {"vp8l-alpha", vp8la, true}}
	for _, im := range images {
		// simple layout
		cc := "VP8 "
		if im.lossless {
			cc = "VP8L"
		}
		out = append(out, c16File{Name: "hand/" + im.name + "/simple", Data: riffwalk.RIFF(riffwalk.ChunkBytes(cc, im.fr.Bitstream))})
		for _, al := range alphs {
			if al.has && im.lossless {
				continue
			}
			for ui, unk := range []string{"none", "junk-before", "junk-after"} {
				for mi, meta := range []string{"nometa", "icc-before", "exif-xmp-after", "all"} {
					// size of what precedes the image chunk: a reader that peeks at a fixed-size
					// prefix of the file (4 KB, 64 KB ...) sees the image header only in the small case
					for _, big := range []int{0, 5001, 70001} {
						if big > 0 && !(ui == 1 || mi == 1 || mi == 3) {
							continue
						}
						junk, icc, meta := junk, icc, meta
						if big > 0 {
							junk = riffwalk.ChunkBytes("JUNK", blob(big, 4))
							icc = riffwalk.ChunkBytes("ICCP", blob(big+1, 5))
							meta = fmt.Sprintf("%s-lead%d", meta, big)
						}
						// exact flags
						var exact byte
						if al.has && len(al.data) > 0 || im.lossless && im.fr.VP8L.Alpha {
							exact |= riffwalk.FlagAlpha
						}
						if mi == 1 || mi == 3 {
							exact |= riffwalk.FlagICC
						}
						if mi >= 2 {
							exact |= riffwalk.FlagEXIF | riffwalk.FlagXMP
						}
						flagVariants := []struct {
							n string
							f byte
						}{{"exact", exact}}
						if ui == 0 {
							for _, b := range []struct {
								n string
								b byte
							}{{"alpha", riffwalk.FlagAlpha}, {"icc", riffwalk.FlagICC}, {"exif", riffwalk.FlagEXIF}, {"xmp", riffwalk.FlagXMP}} {
								if exact&b.b == 0 {
									flagVariants = append(flagVariants, struct {
										n string
										f byte
									}{"over-" + b.n, exact | b.b})
								} else {
									flagVariants = append(flagVariants, struct {
										n string
										f byte
									}{"under-" + b.n, exact &^ b.b})
								}
							}
						}
						for _, fv := range flagVariants {
							var body [][]byte
							body = append(body, riffwalk.VP8X(fv.f, im.fr.BitW(), im.fr.BitH()))
							if mi == 1 || mi == 3 {
								body = append(body, icc)
							}
							if ui == 1 {
								body = append(body, junk)
							}
							if al.has {
								body = append(body, riffwalk.ChunkBytes("ALPH", al.data))
							}
							body = append(body, riffwalk.ChunkBytes(cc, im.fr.Bitstream))
							if ui == 2 {
								body = append(body, junk)
							}
							if mi >= 2 {
								body = append(body, exif, xmp)
							}
							out = append(out, c16File{Name: fmt.Sprintf("hand/%s/vp8x/%s/%s/%s/flags-%s", im.name, al.name, unk, meta, fv.n), Data: riffwalk.RIFF(body...)})
						}
					}
				}
			}
		}
	}
	return out
}

func c16Corpus(e *fw.Env) []c16File {
	var out []c16File
	corpusThorough = !e.Quick()
	corpusMenus = true
	for _, f := range stillCorpus(e.Seed, e.Repo) {
		out = append(out, c16File{Name: f.Name, Data: f.Data, Package: !bytes.HasPrefix([]byte(f.Name), []byte("hand-")) && !bytes.HasPrefix([]byte(f.Name), []byte("testdata-")) && !bytes.HasPrefix([]byte(f.Name), []byte("gen-")) && !bytes.HasPrefix([]byte(f.Name), []byte("vp8gen-"))})
	}
	for _, f := range animCorpus(e.Seed) {
		out = append(out, c16File{Name: f.Name, Data: f.Data, Package: !bytes.HasPrefix([]byte(f.Name), []byte("anim-hand"))})
	}
	// muxer outputs
	c14Init()
	for i, fr := range c14FrameSet {
		m := mux.NewMuxer()
		m.AddFrame(fr.data, nil)
		if i%2 == 0 {
			m.SetEXIF([]byte{1, 2, 3})
		}
		var b bytes.Buffer
		if m.Assemble(&b) == nil {
			out = append(out, c16File{Name: "mux/still-" + fr.name, Data: append([]byte(nil), b.Bytes()...), Package: true})
		}
		m2 := mux.NewMuxer()
		m2.SetLoopCount(7)
		m2.AddFrame(fr.data, &mux.FrameOptions{Duration: 30})
		m2.AddFrame(c14FrameSet[(i+1)%len(c14FrameSet)].data, &mux.FrameOptions{Duration: 40, OffsetX: 2})
		var b2 bytes.Buffer
		if m2.Assemble(&b2) == nil {
			out = append(out, c16File{Name: "mux/anim-" + fr.name, Data: append([]byte(nil), b2.Bytes()...), Package: true})
		}
	}
	// frames whose ALPH payload is stored raw but filtered (what the encoder's size fallback writes):
	// un-filtering has to produce a new plane, the payload belongs to the caller's file
	for _, fr := range c14FrameSet {
		if len(fr.alpha) != 1+fr.w*fr.h || fr.alpha[0] != 0 {
			continue
		}
		for flt := 1; flt <= 3; flt++ {
			al := append([]byte{byte(flt << 2)}, alphaFilter(fr.alpha[1:], fr.w, fr.h, flt)...)
			data := append(riffwalk.ChunkBytes("ALPH", al), fr.bitstream...)
			m := mux.NewMuxer()
			m.AddFrame(data, nil)
			var b bytes.Buffer
			if m.Assemble(&b) == nil {
				out = append(out, c16File{Name: fmt.Sprintf("mux/still-rawalpha-filter%d-%s", flt, fr.name), Data: append([]byte(nil), b.Bytes()...)})
			}
			m2 := mux.NewMuxer()
			m2.AddFrame(data, &mux.FrameOptions{Duration: 30})
			m2.AddFrame(data, &mux.FrameOptions{Duration: 40})
			var b2 bytes.Buffer
			if m2.Assemble(&b2) == nil {
				out = append(out, c16File{Name: fmt.Sprintf("mux/anim-rawalpha-filter%d-%s", flt, fr.name), Data: append([]byte(nil), b2.Bytes()...)})
			}
		}
	}
	// canvases at the boundaries of the size fields: the VP8X canvas has 24 bits per side, the
	// VP8 / VP8L picture headers 14, and every reader has its own idea of a limit
	for _, c := range [][2]int{{1, 1}, {16383, 4}, {16384, 4}, {4, 16384}, {20000, 6}, {65535, 3}, {65536, 2}, {1 << 24, 1}, {2, 1 << 24}} {
		m := mux.NewMuxer()
		m.SetCanvasSize(c[0], c[1])
		m.SetLoopCount(2)
		fa, fb := c14FrameSet[2], c14FrameSet[0]
		if c[0] < 4 || c[1] < 4 {
			continue // the frame set's pictures are 4x4 and larger; 1x1 canvases come from the encoders
		}
		m.AddFrame(fa.data, &mux.FrameOptions{Duration: 30})
		m.AddFrame(fb.data, &mux.FrameOptions{Duration: 40})
		var b bytes.Buffer
		if m.Assemble(&b) == nil {
			out = append(out, c16File{Name: fmt.Sprintf("mux/anim-canvas-%dx%d", c[0], c[1]), Data: append([]byte(nil), b.Bytes()...), Package: true})
		}
	}
	// encoder outputs, one per option class
	for i, im := range c02Images {
		src := imgs.Make(im.W, im.H, im.Content, im.Alpha, e.Seed)
		for _, o := range []*webp.EncoderOptions{nil, {Lossless: true, Quality: 75, Method: 4}, lossyOpts(func(o *webp.EncoderOptions) { o.EXIF = []byte{9} }), lossyOpts(func(o *webp.EncoderOptions) { o.Exact = true; o.AlphaCompression = 0 }),
			// large metadata in front of the image chunk (beyond any fixed-size header peek)
			{Lossless: true, Quality: 75, Method: 4, ICC: blob(6000, 6)}, lossyOpts(func(o *webp.EncoderOptions) { o.ICC = blob(70000, 7) })} {
			out = append(out, c16File{Name: fmt.Sprintf("encode/img%d/%v", i, o != nil && o.Lossless), Data: mustEncode(src, o), Package: true})
		}
	}
	out = append(out, c16Assembled(e.Seed)...)
	return out
}

// c16Check verifies the agreements on one file; "" = held.
func c16Check(f c16File) (verdict string) {
	defer func() {
		if r := recover(); r != nil {
			verdict = fmt.Sprintf("panic: %v", r)
		}
	}()
	data := f.Data
	orig := append([]byte(nil), data...)
	pf, perr := riffwalk.Parse(data)
	img, derr := webp.Decode(bytes.NewReader(data))
	cfg, cerr := webp.DecodeConfig(bytes.NewReader(data))
	ft, ferr := webp.GetFeatures(bytes.NewReader(data))
	animated := perr == nil && pf.Animated
	if derr == nil && !animated {
		// (a) still file that Decode accepts
		if cerr != nil {
			return "Decode accepts the file but DecodeConfig fails: " + cerr.Error()
		}
		if ferr != nil {
			return "Decode accepts the file but GetFeatures fails: " + ferr.Error()
		}
		b := img.Bounds()
		if cfg.Width != b.Dx() || cfg.Height != b.Dy() {
			return fmt.Sprintf("DecodeConfig reports %dx%d, Decode returns %dx%d", cfg.Width, cfg.Height, b.Dx(), b.Dy())
		}
		if ft.Width != b.Dx() || ft.Height != b.Dy() {
			return fmt.Sprintf("GetFeatures reports %dx%d, Decode returns %dx%d", ft.Width, ft.Height, b.Dx(), b.Dy())
		}
		if cfg.ColorModel != img.ColorModel() {
			return fmt.Sprintf("DecodeConfig colour model %s, decoded image's is %s (%T)", modelName(cfg.ColorModel), modelName(img.ColorModel()), img)
		}
		wantFmt := ""
		if perr == nil {
			switch pf.Chunks[0].FourCC {
			case "VP8 ":
				wantFmt = "lossy"
			case "VP8L":
				wantFmt = "lossless"
			case "VP8X":
				wantFmt = "extended"
			}
			if ft.Format != wantFmt {
				return fmt.Sprintf("GetFeatures format %q, file is %q", ft.Format, wantFmt)
			}
		}
		if f.Package {
			nonOpaque := false
			if n, ok := img.(*image.NRGBA); ok {
				nonOpaque = hasNonOpaque(n)
			}
			if nonOpaque && !ft.HasAlpha {
				return "decoded picture has non-opaque pixels but GetFeatures.HasAlpha is false"
			}
		}
		if ft.HasAnimation || ft.FrameCount != 1 {
			return fmt.Sprintf("still file: GetFeatures HasAnimation=%v FrameCount=%d", ft.HasAnimation, ft.FrameCount)
		}
		// image.Decode / image.DecodeConfig dispatch to this package
		im2, name, e2 := image.Decode(bytes.NewReader(data))
		if e2 != nil || name != "webp" {
			return fmt.Sprintf("image.Decode: format %q err %v", name, e2)
		}
		if d := imageEqual(img, im2); d != "" {
			return "image.Decode and webp.Decode return different pictures: " + d
		}
		c2, name2, e3 := image.DecodeConfig(bytes.NewReader(data))
		if e3 != nil || name2 != "webp" || c2.Width != cfg.Width || c2.Height != cfg.Height || c2.ColorModel != cfg.ColorModel {
			return fmt.Sprintf("image.DecodeConfig: format %q err %v config %dx%d", name2, e3, c2.Width, c2.Height)
		}
	}
	if perr != nil {
		return ""
	}
	// (b) container-level views agree (well-formed files, still or animated)
	dmx, xerr := mux.NewDemuxer(data)
	an, aerr := animation.DecodeBytes(data)
	if ferr != nil || cerr != nil || xerr != nil || aerr != nil {
		return fmt.Sprintf("well-formed file rejected by a container-level view: GetFeatures=%v DecodeConfig=%v Demuxer=%v animation.DecodeBytes=%v", ferr, cerr, xerr, aerr)
	}
	if an2, aerr2 := animation.Decode(noLen{bytes.NewReader(data)}); aerr2 != nil || an2.CanvasWidth != an.CanvasWidth || an2.CanvasHeight != an.CanvasHeight || len(an2.Frames) != len(an.Frames) || an2.LoopCount != an.LoopCount {
		return fmt.Sprintf("animation.Decode(reader) and animation.DecodeBytes differ on the same bytes (error %v)", aerr2)
	}
	df := dmx.GetFeatures()
	type view struct {
		who        string
		w, h       int
		anim       bool
		frames     int
		loop       int
		hasLoop    bool
		hasAnimBit bool
	}
	views := []view{
		{"GetFeatures", ft.Width, ft.Height, ft.HasAnimation, ft.FrameCount, ft.LoopCount, true, true},
		{"DecodeConfig", cfg.Width, cfg.Height, false, -1, 0, false, false},
		{"Demuxer", df.Width, df.Height, df.HasAnimation, dmx.NumFrames(), dmx.LoopCount(), true, true},
		{"animation.DecodeBytes", an.CanvasWidth, an.CanvasHeight, false, len(an.Frames), an.LoopCount, true, false},
		{"neutral parser", pf.CanvasW, pf.CanvasH, pf.Animated, len(pf.Frames), pf.Loop, true, true},
	}
	ref := views[len(views)-1]
	for _, v := range views[:len(views)-1] {
		if v.w != ref.w || v.h != ref.h {
			return fmt.Sprintf("%s reports canvas %dx%d, the file's canvas is %dx%d", v.who, v.w, v.h, ref.w, ref.h)
		}
		if v.hasAnimBit && v.anim != ref.anim {
			return fmt.Sprintf("%s reports animation=%v, the file has animation=%v", v.who, v.anim, ref.anim)
		}
		if v.frames >= 0 && v.frames != ref.frames {
			return fmt.Sprintf("%s reports %d frames, the file has %d", v.who, v.frames, ref.frames)
		}
		if ref.anim && v.hasLoop && v.loop != ref.loop {
			return fmt.Sprintf("%s reports loop count %d, the file says %d", v.who, v.loop, ref.loop)
		}
	}
	// (c) the views above were taken of ONE file: the readers that are handed the caller's byte
	// slice (demuxer, animation reader - also after decoding the frames) must leave it as it was,
	// or the next view is a view of something else
	_ = an.DecodeFrames()
	for i := 0; i < dmx.NumFrames(); i++ {
		dmx.Frame(i)
	}
	if !bytes.Equal(data, orig) {
		return "the file's bytes were modified by a reader (demuxer / animation reader / frame decoding): later views are views of a different file"
	}
	return ""
}

func init() {
	fw.Register(&fw.Check{
		ID: "C16", Level: "exploration", Shards: shards16,
		Rule:   "corpus = still and animated corpora of C17/C05, muxer outputs for every frame kind (still and animated), encoder outputs per picture x option class, and EVERY hand-assembled container over {VP8, VP8L, VP8L+alpha} x {simple, VP8X} x ALPH {absent, empty, two parities} x unknown chunk {none, before, after image} x metadata {none, ICC before, EXIF+XMP after, all} x feature flags {exact, each of alpha/ICC/EXIF/XMP over- or under-stated}; each file: the agreements of the property between Decode, DecodeConfig, GetFeatures, image.Decode(Config), mux.Demuxer, animation.DecodeBytes and the neutral parser; distinct = distinct file",
		Assume: []string{"worker count pinned to 1, pools never reuse", "the neutral parser (riffwalk) defines the file's canvas, frame count, animation flag and loop count"},
		Run: func(e *fw.Env, r *fw.Result) {
			pin()
			files := c16Corpus(e)
			for i, f := range files {
				if !e.Mine(i) {
					continue
				}
				r.Eval(1)
				r.Distinct(f.Name, fw.Hash64(f.Data))
				if i%53 == 0 {
					r.Sample(4, map[string]any{"file": f.Name, "bytes": len(f.Data)})
				}
				if d := c16Check(f); d != "" {
					if r.Confirm(2, d, func() string { return c16Check(f) }) {
						r.Violate("headers "+c16Class(d, f.Name), d+" [file "+f.Name+"]", map[string]any{"name": f.Name, "hex": hex.EncodeToString(f.Data), "package": f.Package})
					}
				}
			}
			if e.Shard == 0 {
				r.Count("corpus_files", int64(len(files)))
			}
		},
		Replay: func(e *fw.Env, raw json.RawMessage) string {
			pin()
			var rp struct {
				Name, Hex string
				Package   bool
			}
			json.Unmarshal(raw, &rp)
			b, _ := hex.DecodeString(rp.Hex)
			return c16Check(c16File{rp.Name, b, rp.Package})
		},
	})
}

func c16Class(d, name string) string {
	k := stripDigitsAfter(d)
	if len(k) > 100 {
		k = k[:100]
	}
	return k + " :: " + name
}
