package checks

import (
	"bytes"
	"encoding/json"
	"fmt"
	"image"
	"os"
	"os/exec"
	"strings"
	"sync"
	"time"

	webp "github.com/deepteams/webp"
	"github.com/deepteams/webp/animation"
	"github.com/deepteams/webp/internal/zzverif/choice"
	"github.com/deepteams/webp/internal/zzverif/fw"
	"github.com/deepteams/webp/internal/zzverif/imgs"
	"github.com/deepteams/webp/internal/zzverif/riffwalk"
	"github.com/deepteams/webp/internal/zzverif/vp8gen"
	"github.com/deepteams/webp/internal/zzverif/vp8lgen"
	"github.com/deepteams/webp/internal/zzverif/vsync"
)

// C11 — results do not depend on what was encoded or decoded before
// (history DFS with an explorable sync.Pool).

type c11Call struct {
	name string
	mk   func() func() []byte // builds the call (pictures, files) on first use
	fn   func() []byte
}

func (c *c11Call) build() {
	if c.fn == nil {
		c.fn = c.mk()
	}
}

func (c *c11Call) run() []byte {
	c.build()
	return c.fn()
}

func c11Alphabet(seed int64) []c11Call {
	pin()
	var out []c11Call
	add := func(name string, mk func() func() []byte) { out = append(out, c11Call{name: name, mk: mk}) }
	smooth := func(w, h int) image.Image { return imgs.Make(w, h, "gradient", "opaque", seed) }
	noise := func(w, h int) image.Image { return imgs.Make(w, h, "noise", "opaque", seed) }
	ll := func(m, q int) *webp.EncoderOptions {
		return &webp.EncoderOptions{Lossless: true, Method: m, Quality: float32(q)}
	}
	add("lossless 64x64 smooth q100 m4", func() func() []byte { return encBytes(smooth(64, 64), ll(4, 100)) })
	add("lossless 64x64 smooth q100 m6", func() func() []byte { return encBytes(smooth(64, 64), ll(6, 100)) })
	add("lossless 64x64 smooth q75 m4", func() func() []byte { return encBytes(smooth(64, 64), ll(4, 75)) })
	add("lossy 48x48 noise defaults", func() func() []byte { return encBytes(noise(48, 48), lossyOpts(nil)) })
	add("lossy 48x48 noise seg1 part3 sns0 filter0", func() func() []byte {
		return encBytes(noise(48, 48), lossyOpts(func(o *webp.EncoderOptions) {
			o.Segments, o.Partitions, o.SNSStrength, o.FilterStrength = 1, 3, 0, 0
		}))
	})
	add("lossy 40x40 noise (same macroblock count)", func() func() []byte { return encBytes(noise(40, 40), lossyOpts(nil)) })
	add("lossy 64x64 gradient (grow)", func() func() []byte { return encBytes(smooth(64, 64), lossyOpts(nil)) })
	add("lossy 16x16 noise (shrink)", func() func() []byte { return encBytes(noise(16, 16), lossyOpts(nil)) })
	add("lossy 48x48 noise method 2", func() func() []byte {
		return encBytes(noise(48, 48), lossyOpts(func(o *webp.EncoderOptions) { o.Method = 2 }))
	})
	add("lossy 48x48 noise method 3", func() func() []byte {
		return encBytes(noise(48, 48), lossyOpts(func(o *webp.EncoderOptions) { o.Method = 3 }))
	})
	add("lossy 48x48 noise method 6 q30", func() func() []byte {
		return encBytes(noise(48, 48), lossyOpts(func(o *webp.EncoderOptions) { o.Method = 6; o.Quality = 30 }))
	})
	add("lossy+alpha 48x48", func() func() []byte { return encBytes(imgs.Make(48, 48, "noise", "agradient", seed), lossyOpts(nil)) })
	add("lossy+alpha 40x40 dithered", func() func() []byte {
		return encBytes(imgs.Make(40, 40, "gradient", "anoise", seed), lossyOpts(func(o *webp.EncoderOptions) { o.Preprocessing = 2 }))
	})
	add("lossy 48x48 YCbCr source", func() func() []byte {
		return encBytes(imgs.As(imgs.Make(48, 48, "gradient", "opaque", seed), "YCbCr"), lossyOpts(nil))
	})
	add("lossy 48x48 generic source dithered", func() func() []byte {
		return encBytes(imgs.As(imgs.Make(48, 48, "noise", "opaque", seed), "generic"), lossyOpts(func(o *webp.EncoderOptions) { o.Preprocessing = 2 }))
	})
	add("lossy 48x48 sharp yuv", func() func() []byte {
		return encBytes(noise(48, 48), lossyOpts(func(o *webp.EncoderOptions) { o.UseSharpYUV = true }))
	})
	add("lossless 16x16 4 colours", func() func() []byte { return encBytes(imgs.Make(16, 16, "c4", "opaque", seed), ll(4, 75)) })
	add("lossless 40x40 noise", func() func() []byte { return encBytes(noise(40, 40), ll(4, 75)) })
	add("lossless 8x8 noise alpha", func() func() []byte { return encBytes(imgs.Make(8, 8, "noise", "agradient", seed), ll(4, 75)) })
	fLossyF := sync.OnceValue(func() []byte { return mustEncode(noise(48, 48), lossyOpts(nil)) })
	fLossyAF := sync.OnceValue(func() []byte { return mustEncode(imgs.Make(40, 40, "noise", "agradient", seed), lossyOpts(nil)) })
	fLLF := sync.OnceValue(func() []byte { return mustEncode(imgs.Make(40, 40, "c16", "binary", seed), ll(4, 75)) })
	fLLsF := sync.OnceValue(func() []byte { return mustEncode(imgs.Make(16, 16, "gradient", "opaque", seed), ll(4, 75)) })
	add("decode lossy 48x48", func() func() []byte { return decPix(fLossyF()) })
	add("decode lossy+alpha 40x40", func() func() []byte { return decPix(fLossyAF()) })
	add("decode lossless 40x40", func() func() []byte { return decPix(fLLF()) })
	add("decode lossless 16x16", func() func() []byte { return decPix(fLLsF()) })
	// decodes of generator-made files: header fields an encoder never writes must not
	// survive in a recycled decoder (loop-filter deltas, segment data, probabilities, palettes, caches)
	vp := func(name string, p vp8Preset) {
		f, _ := vp8gen.Generate(p, seed)
		add("decode vp8gen "+name, func() func() []byte { return decPix(riffwalk.RIFF(riffwalk.ChunkBytes("VP8 ", f.Encode()))) })
	}
	vp("lf-deltas updated", vp8Preset{"dims": 4, "coeffs": 7, "filter-level": 3, "lf-delta": 2, "ymode": 6})
	vp("lf-deltas on, not updated", vp8Preset{"dims": 4, "coeffs": 7, "filter-level": 3, "lf-delta": 1, "ymode": 6})
	vp("segments abs data + map", vp8Preset{"dims": 4, "coeffs": 7, "filter-level": 2, "segments": 3})
	vp("segments map only", vp8Preset{"dims": 4, "coeffs": 7, "filter-level": 2, "segments": 1})
	vp("segments on, no map no data", vp8Preset{"dims": 4, "coeffs": 7, "filter-level": 2, "segments": 4})
	vp("prob updates all + skip", vp8Preset{"dims": 4, "coeffs": 9, "prob-updates": 3, "skip": 1})
	vp("plain 4x4 modes simple filter", vp8Preset{"dims": 4, "coeffs": 8, "ymode": 5, "filter-level": 4, "filter-simple": 1, "sharpness": 2})
	ll2 := func(name string, p presetPicker) {
		st, _ := vp8lgen.Generate(p, seed)
		add("decode vp8lgen "+name, func() func() []byte { return decPix(riffwalk.RIFF(riffwalk.ChunkBytes("VP8L", st))) })
	}
	ll2("palette 17 with indices beyond", presetPicker{"dims": 9, "transforms": tOrder(3), "palette-size": 6, "index-beyond-palette": 1})
	ll2("palette 4 packed + predictor", presetPicker{"dims": 9, "transforms": tOrder(3, 0)})
	ll2("cache 11 bits + meta sparse", presetPicker{"dims": 9, "main-cache": 4, "meta": 3})
	ll2("cache 2 bits unwritten slots", presetPicker{"dims": 8, "main-cache": 6})
	ll2("all four transforms", presetPicker{"dims": 9, "transforms": tOrder(2, 0, 1, 3)})
	// calls that FAIL must leave nothing behind in the recycled decoder either
	cut := func(b []byte, n int) []byte {
		// cut the payload of the last chunk by n bytes and fix the sizes, so that the container is
		// consistent and the bitstream decoder itself runs out of data
		f, err := riffwalk.Parse(b)
		if err != nil || len(f.Chunks) == 0 {
			return b[:len(b)-n]
		}
		last := f.Chunks[len(f.Chunks)-1]
		if last.Size <= n+12 {
			return b[:len(b)-n]
		}
		var body [][]byte
		for _, c := range f.Chunks[:len(f.Chunks)-1] {
			body = append(body, riffwalk.ChunkBytes(c.FourCC, c.Data))
		}
		body = append(body, riffwalk.ChunkBytes(last.FourCC, last.Data[:last.Size-n]))
		return riffwalk.RIFF(body...)
	}
	add("decode lossy 48x48 cut inside the tokens (fails)", func() func() []byte { return decPix(cut(fLossyF(), len(fLossyF())/3)) })
	add("decode lossy 48x48 last 2 bytes missing (may fail)", func() func() []byte { return decPix(cut(fLossyF(), 2)) })
	add("decode lossless 40x40 cut in the middle (fails)", func() func() []byte { return decPix(cut(fLLF(), len(fLLF())/2)) })
	add("decode lossy+alpha 40x40 cut inside the tokens (fails)", func() func() []byte { return decPix(cut(fLossyAF(), len(fLossyAF())/4)) })
	add("animation encode 2 frames 16x16", func() func() []byte {
		return func() []byte {
			var buf bytes.Buffer
			enc := animation.NewEncoder(&buf, 16, 16, &animation.EncodeOptions{Lossless: true, Quality: 75})
			enc.AddFrame(imgs.Make(16, 16, "c4", "opaque", seed), 40*time.Millisecond)
			enc.AddFrame(imgs.Make(16, 16, "c4", "binary", seed), 40*time.Millisecond)
			if err := enc.Close(); err != nil {
				return []byte("error: " + err.Error())
			}
			return buf.Bytes()
		}
	})
	return out
}

// c11Refs computes every call's result as the first call of a fresh process.
func c11Refs(e *fw.Env, n int) ([]string, error) {
	exe, _ := os.Executable()
	refs := make([]string, n)
	type res struct {
		i   int
		d   string
		err error
	}
	ch := make(chan res, n)
	sem := make(chan struct{}, 4)
	for i := 0; i < n; i++ {
		go func(i int) {
			sem <- struct{}{}
			defer func() { <-sem }()
			cmd := exec.Command(exe, "C11", e.Tier, "-shard", "0/1", "-out", "/dev/null", "refcall", fmt.Sprint(i))
			cmd.Env = append(os.Environ(), fmt.Sprintf("VERIF_SEED=%d", e.Seed))
			out, err := cmd.Output()
			ch <- res{i, strings.TrimSpace(string(out)), err}
		}(i)
	}
	for k := 0; k < n; k++ {
		r := <-ch
		if r.err != nil || !strings.HasPrefix(r.d, "digest=") {
			return nil, fmt.Errorf("fresh-process reference for call %d failed: %v %q", r.i, r.err, r.d)
		}
		refs[r.i] = strings.TrimPrefix(r.d, "digest=")
	}
	return refs, nil
}

type c11Replay struct {
	Hist  []int
	Picks []int // pool choices; nil with AllReuse
	All   bool  // most-recent reuse everywhere
	Seed  int64
}

// c11Exec runs one history under one pool-choice vector; "" = held.
func c11Exec(calls []c11Call, refs []string, hist []int, c *choice.Ctx, allReuse bool) (verdict string, hits int) {
	if allReuse {
		vsync.SetPoolPolicy(vsync.PoolMostRecent, nil)
	} else {
		vsync.SetPoolPolicy(vsync.PoolExplore, func(p *vsync.Pool, k int) int {
			return c.PickCost(k+1, 1, "")
		})
	}
	vsync.ResetPools()
	var kept [][]byte
	var keptDig []string
	// live images returned by the decode calls (the objects themselves, re-read at the end)
	type live struct {
		read func() []byte
		dig  string
		pos  int
	}
	var lives []live
	curPos := 0
	liveHook = func(read func() []byte) { lives = append(lives, live{read, fw.Digest(read()), curPos}) }
	defer func() { liveHook = nil }()
	for pos, ci := range hist {
		curPos = pos
		out := calls[ci].run()
		d := fw.Digest(out)
		kept = append(kept, out)
		keptDig = append(keptDig, d)
		if d != refs[ci] {
			var prev []string
			for _, pj := range hist[:pos] {
				prev = append(prev, calls[pj].name)
			}
			return fmt.Sprintf("call %q returns a different result (digest %s, %d bytes) than as the first call of a fresh process (digest %s) after [%s]", calls[ci].name, d, len(out), refs[ci], strings.Join(prev, "; ")), vsync.TotalHits()
		}
	}
	for i := range kept {
		if fw.Digest(kept[i]) != keptDig[i] {
			return fmt.Sprintf("the result returned by call %d (%q) was modified by a later call", i, calls[hist[i]].name), vsync.TotalHits()
		}
	}
	for _, l := range lives {
		if fw.Digest(l.read()) != l.dig {
			return fmt.Sprintf("the image returned by call %d (%q) was modified by a later call", l.pos, calls[hist[l.pos]].name), vsync.TotalHits()
		}
	}
	return "", vsync.TotalHits()
}

func init() {
	fw.Register(&fw.Check{
		ID: "C11", Level: "model_checking", Shards: shards16,
		Rule:   "history DFS on the real code with an explorable pool: every ordered pair (thorough: triple over a 12-call core) of public API calls from a 40-call alphabet (codecs, equal/greater/smaller macroblock counts, options that must be reset on reuse, methods, alpha, dithering, source types, decodes of encoder-made and of generator-made files whose headers carry fields no encoder writes, failing decodes of truncated files, animation) x every assignment of pooled objects to Pool.Get calls with at most 1 (thorough 2) reuse events, plus the all-most-recent schedule; oracle: every result equals the same call's result as the first call of a fresh process (computed in child processes) and results already returned - byte slices, and the live image objects handed out by Decode, re-read after the later calls - are unchanged; a history is non-trivial only if a Get was served from a pool",
		Assume: []string{"worker count pinned to 1 (C12 studies worker counts)", "vsync.Pool replaces sync.Pool: the runtime's per-P caches and GC clearing are nondeterminism the harness owns"},
		Run: func(e *fw.Env, r *fw.Result) {
			calls := c11Alphabet(e.Seed)
			if len(e.Args) >= 2 && e.Args[0] == "refcall" {
				var i int
				fmt.Sscan(e.Args[1], &i)
				pin()
				fmt.Printf("digest=%s\n", fw.Digest(calls[i].run()))
				return
			}
			pin()
			refs, err := c11Refs(e, len(calls))
			if err != nil {
				r.HarnessError("%v", err)
				return
			}
			for i := range calls {
				calls[i].build() // pictures and input files are made before the first history
			}
			// sanity: fresh policy in this process reproduces the fresh-process results
			for i := range calls {
				if d := fw.Digest(calls[i].run()); d != refs[i] {
					r.Violate("history fresh-policy "+calls[i].name, fmt.Sprintf("call %q: result in a long-lived process with pools that never reuse (digest %s) differs from a fresh process (digest %s): state outside the pools leaks", calls[i].name, d, refs[i]), c11Replay{Hist: []int{i}, Seed: e.Seed})
				}
			}
			var hists [][]int
			for a := range calls {
				for b := range calls {
					hists = append(hists, []int{a, b})
				}
			}
			if !e.Quick() {
				core := []int{0, 2, 3, 4, 5, 8, 9, 11, 12, 13, 18, 19, 23, 24, 25, 30}
				for _, a := range core {
					for _, b := range core {
						for _, c := range core {
							hists = append(hists, []int{a, b, c})
						}
					}
				}
			}
			var execs, withHits int64
			for hi, h := range hists {
				if !e.Mine(hi) {
					continue
				}
				if e.Expired() {
					r.Cap("deadline reached before all histories were explored")
					break
				}
				report := func(v string, picks []int, all bool) {
					rp := c11Replay{Hist: h, Picks: picks, All: all, Seed: e.Seed}
					var names []string
					for _, i := range h {
						names = append(names, calls[i].name)
					}
					// key: the call that went wrong and the immediately preceding history
					r.Violate("history ["+strings.Join(names, " -> ")+"]", v+fmt.Sprintf(" [history %v, pool choices %v, all-reuse=%v]", names, picks, all), rp)
				}
				seenV := false
				poolBound := 1 // quick: every single reuse event, plus the all-reuse schedule below
				if !e.Quick() {
					poolBound = 2
				}
				st := choice.Explore(choice.Config{Bound: poolBound, Stop: e.Expired}, func(c *choice.Ctx) {
					v, hits := c11Exec(calls, refs, h, c, false)
					execs++
					if hits > 0 {
						withHits++
					}
					if v != "" && !seenV {
						picks := c.Picks()
						v2 := ""
						choice.Replay(picks, func(c2 *choice.Ctx) { v2, _ = c11Exec(calls, refs, h, c2, false) })
						if v2 != v {
							r.HarnessError("history violation not reproducible: %q vs %q", v, v2)
							return
						}
						seenV = true // one report per history
						report(v, picks, false)
					}
				})
				if st.Capped {
					r.Cap("deadline reached inside a history")
				}
				v, hits := c11Exec(calls, refs, h, nil, true)
				execs++
				if hits > 0 {
					withHits++
					r.Distinct(h)
				}
				if v != "" && !seenV {
					if v2, _ := c11Exec(calls, refs, h, nil, true); v2 == v {
						report(v, nil, true)
					} else {
						r.HarnessError("all-reuse violation not reproducible: %q vs %q", v, v2)
					}
				}
				if hi%97 == 0 {
					r.Sample(3, map[string]any{"history": []string{calls[h[0]].name, calls[h[1]].name}, "pool_hits_all_reuse": hits})
				}
			}
			r.Eval(execs)
			r.Transitions += execs
			r.Traces += execs
			r.Count("executions_with_pool_hits", withHits)
			if e.Shard == 0 {
				r.Count("call_alphabet", int64(len(calls)))
				r.Count("histories", int64(len(hists)))
				var ps []string
				for _, p := range vsync.PoolStats() {
					ps = append(ps, p.Name)
				}
				r.SetInfo("pools_seen", ps)
			}
		},
		Post: func(e *fw.Env, r *fw.Result) {
			r.States = int64(len(r.DistinctSet))
			if r.States == 0 {
				r.States = 1
			}
		},
		Replay: func(e *fw.Env, raw json.RawMessage) string {
			var rp c11Replay
			json.Unmarshal(raw, &rp)
			calls := c11Alphabet(rp.Seed)
			pin()
			for i := range calls {
				calls[i].build() // as in Run: everything is built before the first history
			}
			refs, err := c11Refs(e, len(calls))
			if err != nil {
				return err.Error()
			}
			if len(rp.Hist) == 1 {
				if d := fw.Digest(calls[rp.Hist[0]].run()); d != refs[rp.Hist[0]] {
					return "result with never-reusing pools differs from a fresh process"
				}
				return ""
			}
			if rp.All {
				v, _ := c11Exec(calls, refs, rp.Hist, nil, true)
				return v
			}
			v := ""
			choice.Replay(rp.Picks, func(c *choice.Ctx) { v, _ = c11Exec(calls, refs, rp.Hist, c, false) })
			return v
		},
	})
}

// tOrder returns the index of the given transform order in the generator's list.
func tOrder(ts ...int) int {
	for i, o := range vp8lgen.TransformOrders {
		if fmt.Sprint(o) == fmt.Sprint(ts) {
			return i
		}
	}
	return 0
}
