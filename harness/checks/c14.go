package checks

import (
	"bytes"
	"encoding/json"
	"fmt"
	"strings"
	"sync"

	webp "github.com/deepteams/webp"
	"github.com/deepteams/webp/internal/zzverif/bfs"
	"github.com/deepteams/webp/internal/zzverif/fw"
	"github.com/deepteams/webp/internal/zzverif/imgs"
	"github.com/deepteams/webp/internal/zzverif/riffwalk"
	"github.com/deepteams/webp/mux"
)

// C14 — muxing then demuxing returns exactly what was put in (explicit-state
// BFS over the real Muxer with a plain-struct model in lock-step).

type mFrame struct {
	alpha     []byte // nil: no alpha data given
	bitstream []byte
	lossless  bool
	w, h      int
	dur       int
	x, y      int
	noBlend   bool
	dispose   bool
}

type mModel struct {
	frames         []mFrame
	icc, exif, xmp []byte // nil = not set
	bg             uint32
	loop           int
	cw, ch         int
}

type c14Frame struct {
	name string
	data []byte // what is handed to AddFrame
	mFrame
}

type c14Op struct {
	name  string
	apply func(m *mux.Muxer, md *mModel) error // returns the muxer's error (rejection), if any
}

func clampDur(d int) int {
	if d < 0 {
		return 0
	}
	if d > 0xFFFFFF {
		return 0xFFFFFF
	}
	return d
}

var (
	c14Ops      []c14Op
	c14FrameSet []c14Frame
	c14Once     sync.Once
	// the single caller-owned buffer all muxer inputs are sliced from, and its pristine copy
	c14Arena, c14ArenaOrig []byte
)

func c14Init() { c14Once.Do(func() { c14Ops, c14FrameSet = c14Build() }) }

func c14Build() ([]c14Op, []c14Frame) {
	pin()
	// real bitstreams, 4x4 and 6x6
	bits := func(img *webp.EncoderOptions, w, h int, alpha string, seed int64) *riffwalk.Frame {
		data := mustEncode(imgs.Make(w, h, "noise", alpha, seed), img)
		f, err := riffwalk.Parse(data)
		if err != nil || len(f.Frames) != 1 {
			panic("c14: cannot build frame")
		}
		return &f.Frames[0]
	}
	find := func(lossless bool, alpha string, w, h int, wantOdd, wantAlphaOdd int) *riffwalk.Frame {
		for seed := int64(1); seed < 400; seed++ {
			o := webp.DefaultOptions()
			o.Lossless = lossless
			o.Quality = float32(30 + seed%50)
			if wantAlphaOdd >= 0 {
				o.AlphaCompression = 0 // raw alpha: payload length 1 + w*h
			}
			fr := bits(o, w, h, alpha, seed)
			if wantOdd >= 0 && len(fr.Bitstream)%2 != wantOdd {
				continue
			}
			if wantAlphaOdd >= 0 && (!fr.HasALPH || len(fr.Alpha)%2 != wantAlphaOdd) {
				continue
			}
			return fr
		}
		panic("c14: no frame with the wanted parity")
	}
	var frames []c14Frame
	addF := func(name string, fr *riffwalk.Frame) {
		f := c14Frame{name: name}
		f.bitstream = fr.Bitstream
		f.lossless = fr.Lossless
		f.w, f.h = fr.BitW(), fr.BitH()
		if fr.HasALPH {
			f.alpha = fr.Alpha
			f.data = append(riffwalk.ChunkBytes("ALPH", fr.Alpha), fr.Bitstream...)
		} else {
			f.data = fr.Bitstream
		}
		frames = append(frames, f)
	}
	addF("vp8-even", find(false, "opaque", 4, 4, 0, -1))
	addF("vp8-odd", find(false, "opaque", 4, 4, 1, -1))
	addF("vp8l-opaque", find(true, "opaque", 4, 4, -1, -1))
	addF("vp8l-alpha-6x6", find(true, "agradient", 6, 6, -1, -1))
	addF("alph-even+vp8", find(false, "agradient", 5, 3, -1, 0))
	addF("alph-odd+vp8", find(false, "anoise", 4, 4, -1, 1))

	type fopt struct {
		name string
		o    *mux.FrameOptions
	}
	fopts := []fopt{
		{"nil", nil},
		{"dur100", &mux.FrameOptions{Duration: 100}},
		{"dur0-off2,2", &mux.FrameOptions{OffsetX: 2, OffsetY: 2}},
		{"dur50-off3,1-noblend-dispose", &mux.FrameOptions{Duration: 50, OffsetX: 3, OffsetY: 1, BlendMode: mux.BlendNone, DisposeMode: mux.DisposeBackground}},
		{"dur2^24+1", &mux.FrameOptions{Duration: 1<<24 + 1}},
	}
	// Everything handed to the muxer lives in ONE caller-owned buffer, each blob directly
	// followed by the next one and with spare capacity reaching over it (the way a caller
	// slices frames and metadata out of a file it has read): the muxer keeps these slices by
	// reference, and neither their contents nor the bytes behind them are its to write.
	var place []*[]byte
	for i := range frames {
		// the model keeps private copies
		frames[i].bitstream = append([]byte(nil), frames[i].bitstream...)
		if frames[i].alpha != nil {
			frames[i].alpha = append([]byte(nil), frames[i].alpha...)
		}
		place = append(place, &frames[i].data)
	}
	var ops []c14Op
	for fi := range frames {
		for _, fo := range fopts {
			f, fo := &frames[fi], fo // by reference: data is re-sliced into the caller's buffer below
			ops = append(ops, c14Op{"AddFrame(" + f.name + "," + fo.name + ")", func(m *mux.Muxer, md *mModel) error {
				err := m.AddFrame(f.data, fo.o)
				if err != nil {
					return err
				}
				mf := f.mFrame
				if fo.o != nil {
					mf.dur = clampDur(fo.o.Duration)
					mf.x, mf.y = fo.o.OffsetX, fo.o.OffsetY
					mf.noBlend = fo.o.BlendMode == mux.BlendNone
					mf.dispose = fo.o.DisposeMode == mux.DisposeBackground
				}
				md.frames = append(md.frames, mf)
				return nil
			}})
		}
	}
	idx := func(md *mModel, which string) int {
		switch which {
		case "0":
			return 0
		case "last":
			return len(md.frames) - 1
		}
		return len(md.frames) + 3
	}
	for _, which := range []string{"0", "last", "oob"} {
		which := which
		ops = append(ops, c14Op{"SetFrameDisposeMode(" + which + ",background)", func(m *mux.Muxer, md *mModel) error {
			i := idx(md, which)
			m.SetFrameDisposeMode(i, mux.DisposeBackground)
			if i >= 0 && i < len(md.frames) {
				md.frames[i].dispose = true
			}
			return nil
		}})
		for _, d := range []int{0, 70000, 1<<24 + 5, -3} {
			d := d
			ops = append(ops, c14Op{fmt.Sprintf("SetFrameDuration(%s,%d)", which, d), func(m *mux.Muxer, md *mModel) error {
				i := idx(md, which)
				m.SetFrameDuration(i, d)
				if i >= 0 && i < len(md.frames) {
					md.frames[i].dur = clampDur(d)
				}
				return nil
			}})
		}
	}
	blobs := []struct {
		name string
		b    []byte
	}{{"nil", nil}, {"empty", []byte{}}, {"odd", []byte{1, 2, 3}}, {"even", []byte{9, 8, 7, 6}}}
	for bi := range blobs {
		b := &blobs[bi]
		mcopy := b.b // the model's private copy (nil stays nil)
		if b.b != nil {
			mcopy = append([]byte{}, b.b...)
			place = append(place, &b.b)
		}
		ops = append(ops,
			c14Op{"SetICCProfile(" + b.name + ")", func(m *mux.Muxer, md *mModel) error { m.SetICCProfile(b.b); md.icc = mcopy; return nil }},
			c14Op{"SetEXIF(" + b.name + ")", func(m *mux.Muxer, md *mModel) error { m.SetEXIF(b.b); md.exif = mcopy; return nil }},
			c14Op{"SetXMP(" + b.name + ")", func(m *mux.Muxer, md *mModel) error { m.SetXMP(b.b); md.xmp = mcopy; return nil }})
	}
	chunkOdd, chunkEven := []byte{5, 5, 5}, []byte{4, 4}
	place = append(place, &chunkOdd, &chunkEven)
	ops = append(ops,
		c14Op{"AddChunk(ICCP,odd)", func(m *mux.Muxer, md *mModel) error {
			if err := m.AddChunk(mux.FourCCICCP, chunkOdd); err != nil {
				return err
			}
			md.icc = []byte{5, 5, 5}
			return nil
		}},
		c14Op{"AddChunk(XMP,even)", func(m *mux.Muxer, md *mModel) error {
			if err := m.AddChunk(mux.FourCCXMP, chunkEven); err != nil {
				return err
			}
			md.xmp = []byte{4, 4}
			return nil
		}})
	for _, l := range []int{0, 1, 65535, 70000, -1} {
		l := l
		ops = append(ops, c14Op{fmt.Sprintf("SetLoopCount(%d)", l), func(m *mux.Muxer, md *mModel) error {
			m.SetLoopCount(l)
			switch {
			case l < 0:
				md.loop = 0
			case l > 65535:
				md.loop = 65535
			default:
				md.loop = l
			}
			return nil
		}})
	}
	ops = append(ops, c14Op{"SetBackgroundColor(0x11223344)", func(m *mux.Muxer, md *mModel) error {
		m.SetBackgroundColor(0x11223344)
		md.bg = 0x11223344
		return nil
	}})
	for _, c := range [][2]int{{0, 0}, {4, 4}, {16, 12}, {3, 3}} {
		c := c
		ops = append(ops, c14Op{fmt.Sprintf("SetCanvasSize(%d,%d)", c[0], c[1]), func(m *mux.Muxer, md *mModel) error {
			m.SetCanvasSize(c[0], c[1])
			md.cw, md.ch = c[0], c[1]
			return nil
		}})
	}
	// lay the caller's buffer out: blob, blob, ..., guard
	total := 16
	for _, p := range place {
		total += len(*p)
	}
	c14Arena = make([]byte, 0, total)
	for _, p := range place {
		off := len(c14Arena)
		c14Arena = append(c14Arena, *p...)
		*p = c14Arena[off:len(c14Arena):total] // spare capacity reaches over everything behind it
	}
	for len(c14Arena) < total {
		c14Arena = append(c14Arena, 0xA5)
	}
	c14ArenaOrig = append([]byte(nil), c14Arena...)
	return ops, frames
}

// c14CallerMemory reports (and repairs, so that one history cannot poison the next) any
// change to the buffer the muxer's inputs were sliced from.
func c14CallerMemory() string {
	if bytes.Equal(c14Arena, c14ArenaOrig) {
		return ""
	}
	at := 0
	for at < len(c14Arena) && c14Arena[at] == c14ArenaOrig[at] {
		at++
	}
	v := fmt.Sprintf("the muxer wrote into the caller's memory: byte %d of the buffer its inputs were sliced from changed from %#02x to %#02x (inputs are kept by reference; the bytes behind a slice's length belong to the caller)", at, c14ArenaOrig[at], c14Arena[at])
	copy(c14Arena, c14ArenaOrig)
	return v
}

type c14Sys struct{}

func (c14Sys) NOps(depth int) int { c14Init(); return len(c14Ops) }
func (c14Sys) Describe(h []int) string {
	var s []string
	for _, i := range h {
		s = append(s, c14Ops[i].name)
	}
	return strings.Join(s, "; ")
}

func eqBytes(a, b []byte) bool { return bytes.Equal(a, b) }

func (c14Sys) Exec(h []int) (st bfs.Step) {
	defer func() {
		if r := recover(); r != nil {
			st.Violation = fmt.Sprintf("panic: %v", r)
		}
	}()
	m := mux.NewMuxer()
	md := &mModel{}
	for k, i := range h {
		if err := c14Ops[i].apply(m, md); err != nil {
			// the muxer rejected the operation with an error: state unchanged
			_ = k
		}
	}
	v := c14Check(m, md)
	if mv := c14CallerMemory(); mv != "" && v == "" {
		v = mv
	}
	if v != "" {
		return bfs.Step{Violation: v}
	}
	hs := bfs.NewHasher()
	hs.Value(m)
	return bfs.Step{Key: hs.Sum()}
}

// c14Check assembles and verifies the output against the model.
func c14Check(m *mux.Muxer, md *mModel) string {
	var buf bytes.Buffer
	err := m.Assemble(&buf)
	if err != nil {
		return "" // rejected with an error: accepted as rejection
	}
	out := buf.Bytes()
	if len(md.frames) == 0 {
		return "Assemble succeeded without any frame"
	}
	f, perr := riffwalk.Parse(out)
	if perr != nil {
		return "assembled file is not parseable: " + perr.Error()
	}
	if len(f.Problems) > 0 {
		if len(f.Problems) == 1 && strings.HasPrefix(f.Problems[0], "still image ") && md.cw > 0 && md.ch > 0 && len(md.frames) == 1 {
			return fmt.Sprintf("explicit-canvas still: SetCanvasSize(%d,%d) with one still image %dx%d is written with a VP8X canvas that differs from the image (not a well-formed file; libwebp rejects it)", md.cw, md.ch, md.frames[0].w, md.frames[0].h)
		}
		return "assembled file is not a structurally valid container: " + strings.Join(f.Problems, "; ")
	}
	for i := range f.Frames {
		if p := f.Frames[i].BitstreamProblems(); len(p) > 0 {
			return fmt.Sprintf("frame %d: %s", i, strings.Join(p, "; "))
		}
	}
	if len(f.Frames) != len(md.frames) {
		return fmt.Sprintf("file has %d frames, %d were added", len(f.Frames), len(md.frames))
	}
	// 1. the neutral parser sees what was put in
	for i := range md.frames {
		a, b := &f.Frames[i], &md.frames[i]
		if !eqBytes(a.Bitstream, b.bitstream) {
			return fmt.Sprintf("frame %d: bitstream differs from what was added (%d vs %d bytes)", i, len(a.Bitstream), len(b.bitstream))
		}
		if a.HasALPH != (b.alpha != nil) || !eqBytes(a.Alpha, b.alpha) {
			return fmt.Sprintf("frame %d: alpha payload differs from what was added (present %v, %d vs %d bytes)", i, a.HasALPH, len(a.Alpha), len(b.alpha))
		}
		if f.Animated {
			if a.X != b.x&^1 || a.Y != b.y&^1 || a.Duration != b.dur || a.NoBlend != b.noBlend || a.Dispose != b.dispose {
				return fmt.Sprintf("frame %d: parameters (x=%d y=%d dur=%d noblend=%v dispose=%v) differ from what was set (x=%d y=%d dur=%d noblend=%v dispose=%v)",
					i, a.X, a.Y, a.Duration, a.NoBlend, a.Dispose, b.x&^1, b.y&^1, b.dur, b.noBlend, b.dispose)
			}
		} else if b.dur != 0 {
			return fmt.Sprintf("frame with duration %d was written as a still image", b.dur)
		}
	}
	if f.Animated {
		if f.Loop != md.loop || f.BG != md.bg {
			return fmt.Sprintf("loop count / background %d / %#x, set %d / %#x", f.Loop, f.BG, md.loop, md.bg)
		}
	}
	wantMeta := func(name string, present bool, got, want []byte) string {
		if len(want) > 0 && (!present || !eqBytes(got, want)) {
			return fmt.Sprintf("%s: %d bytes stored (present %v), %d set", name, len(got), present, len(want))
		}
		if want == nil && present {
			return name + " chunk present although none was set"
		}
		return ""
	}
	for _, d := range []string{wantMeta("ICCP", f.HasICC, f.ICC, md.icc), wantMeta("EXIF", f.HasEXIF, f.EXIF, md.exif), wantMeta("XMP", f.HasXMP, f.XMP, md.xmp)} {
		if d != "" {
			return d
		}
	}
	if md.cw > 0 && md.ch > 0 && f.HasVP8X && (f.CanvasW != md.cw || f.CanvasH != md.ch) {
		return fmt.Sprintf("canvas %dx%d, SetCanvasSize(%d,%d)", f.CanvasW, f.CanvasH, md.cw, md.ch)
	}
	// 2. the package's demuxer returns the same
	dmx, derr := mux.NewDemuxer(out)
	if derr != nil {
		return "mux.NewDemuxer rejects the muxer's own output: " + derr.Error()
	}
	if dmx.NumFrames() != len(md.frames) {
		return fmt.Sprintf("demuxer reports %d frames, %d were added", dmx.NumFrames(), len(md.frames))
	}
	ft := dmx.GetFeatures()
	if ft.Width != f.CanvasW || ft.Height != f.CanvasH || ft.HasAnimation != f.Animated {
		return fmt.Sprintf("demuxer features %dx%d anim=%v, neutral parser %dx%d anim=%v", ft.Width, ft.Height, ft.HasAnimation, f.CanvasW, f.CanvasH, f.Animated)
	}
	for i := range md.frames {
		fi, e := dmx.Frame(i)
		if e != nil {
			return fmt.Sprintf("demuxer Frame(%d): %v", i, e)
		}
		b := &md.frames[i]
		if !eqBytes(fi.Data, b.bitstream) {
			return fmt.Sprintf("demuxer frame %d: bitstream differs from what was added (%d vs %d bytes)", i, len(fi.Data), len(b.bitstream))
		}
		if !eqBytes(fi.AlphaData, b.alpha) {
			return fmt.Sprintf("demuxer frame %d: alpha payload differs from what was added (%d vs %d bytes)", i, len(fi.AlphaData), len(b.alpha))
		}
		if fi.Width != b.w || fi.Height != b.h {
			return fmt.Sprintf("demuxer frame %d: %dx%d, bitstream is %dx%d", i, fi.Width, fi.Height, b.w, b.h)
		}
		if f.Animated {
			if fi.OffsetX != b.x&^1 || fi.OffsetY != b.y&^1 || fi.Duration != b.dur || (fi.BlendMode == mux.BlendNone) != b.noBlend || (fi.DisposeMode == mux.DisposeBackground) != b.dispose {
				return fmt.Sprintf("demuxer frame %d: parameters differ from what was set", i)
			}
		}
	}
	if f.Animated && (dmx.LoopCount() != md.loop || dmx.BackgroundColor() != md.bg) {
		return fmt.Sprintf("demuxer loop/background %d/%#x, set %d/%#x", dmx.LoopCount(), dmx.BackgroundColor(), md.loop, md.bg)
	}
	for _, c := range []struct {
		id   mux.ChunkID
		want []byte
		n    string
	}{{mux.FourCCICCP, md.icc, "ICCP"}, {mux.FourCCEXIF, md.exif, "EXIF"}, {mux.FourCCXMP, md.xmp, "XMP"}} {
		got, e := dmx.GetChunk(c.id)
		if len(c.want) > 0 && (e != nil || !eqBytes(got, c.want)) {
			return fmt.Sprintf("demuxer GetChunk(%s): %d bytes (err %v), %d set", c.n, len(got), e, len(c.want))
		}
	}
	// 3. the container parser (through the public API) reports the same structure
	gf, gerr := webp.GetFeatures(bytes.NewReader(out))
	if gerr != nil {
		return "webp.GetFeatures rejects the muxer's output: " + gerr.Error()
	}
	if gf.Width != f.CanvasW || gf.Height != f.CanvasH || gf.HasAnimation != f.Animated || gf.FrameCount != len(f.Frames) {
		return fmt.Sprintf("container parser: %dx%d anim=%v frames=%d; neutral parser: %dx%d anim=%v frames=%d", gf.Width, gf.Height, gf.HasAnimation, gf.FrameCount, f.CanvasW, f.CanvasH, f.Animated, len(f.Frames))
	}
	if f.Animated && gf.LoopCount != md.loop {
		return fmt.Sprintf("container parser loop count %d, set %d", gf.LoopCount, md.loop)
	}
	// 4. still outputs decode
	if !f.Animated {
		if _, e, p := decode(out); e != nil || p != "" {
			return fmt.Sprintf("still output does not decode: %v %s", e, first(p))
		}
	}
	return ""
}

// c14Bulk checks one long history: n AddFrame calls alternating two frame kinds, optionally
// with all three metadata blobs.  The frame counts sit around the limits visible in the code
// (container.MaxChunks = 1000, MaxFrames = 10000), which no BFS depth reaches.
var c14BulkCounts = []int{1, 2, 997, 998, 999, 1000, 1001, 1002, 9999, 10000, 10001}

func c14Bulk(n int, meta bool) (v string) {
	defer func() {
		if r := recover(); r != nil {
			v = fmt.Sprintf("panic: %v", r)
		}
	}()
	c14Init()
	op := func(name string) *c14Op {
		for i := range c14Ops {
			if c14Ops[i].name == name {
				return &c14Ops[i]
			}
		}
		panic("c14: no operation " + name)
	}
	a, b := op("AddFrame(vp8l-opaque,dur100)"), op("AddFrame(alph-odd+vp8,dur50-off3,1-noblend-dispose)")
	m := mux.NewMuxer()
	md := &mModel{}
	for i := 0; i < n; i++ {
		if i%2 == 0 {
			a.apply(m, md)
		} else {
			b.apply(m, md)
		}
	}
	if meta {
		op("SetICCProfile(odd)").apply(m, md)
		op("SetEXIF(even)").apply(m, md)
		op("SetXMP(odd)").apply(m, md)
	}
	return c14Check(m, md)
}

func init() {
	fw.Register(&fw.Check{
		ID: "C14", Level: "model_checking", Shards: shards16,
		Rule:   fmt.Sprintf("explicit-state BFS over the real Muxer: %s-call alphabet (AddFrame of 6 real bitstreams {VP8 even/odd, VP8L opaque/alpha, ALPH-prefixed VP8 with even/odd alpha} x 5 option sets; SetFrameDisposeMode/SetFrameDuration at {0,last,out of range}; SetICCProfile/SetEXIF/SetXMP/AddChunk x {nil,empty,odd,even}; SetLoopCount; SetBackgroundColor; SetCanvasSize), depth 4 quick / 5 thorough, merged by reflection hash of the Muxer's private state; after every history Assemble is checked against a plain-struct model through riffwalk, mux.Demuxer and container.Parser; plus 22 long histories (1..10001 AddFrame calls around the limits 1000 and 10000 visible in the code, with and without metadata) checked the same way; plus writer faults: 3 histories (simple still, extended still, animation) assembled into a writer that accepts n bytes and then fails, for every n below the output length", "73"),
		Assume: []string{"frames are real VP8/VP8L bitstreams produced by this package's encoder (junk data is outside the property's quantifier)", "a rejected Assemble (error) is accepted"},
		Run: func(e *fw.Env, r *fw.Result) {
			pin()
			c14Init()
			depth := 4
			var maxT int64 = 60_000_000
			if !e.Quick() {
				depth = 5
				maxT = 600_000_000
			}
			sys := c14Sys{}
			ns := 0
			st := bfs.Run(sys, bfs.Config{MaxDepth: depth, Shard: e.Shard, NShard: e.NShard, MaxTransitions: maxT / int64(e.NShard), Stop: e.Expired,
				OnViolation: func(h []int, v string) {
					r.Violate("mux "+c14Class(v, h), v+" [calls: "+sys.Describe(h)+"]", map[string]any{"hist": h})
				},
				OnState: func(key uint64, h []int) {
					r.DistinctHash(key)
					if ns < 2 && len(h) == 3 {
						ns++
						r.Sample(4, map[string]any{"history": sys.Describe(h)})
					}
				}})
			r.Transitions += st.Transitions
			r.Traces += st.Transitions
			r.Eval(st.Transitions)
			if st.Capped != "" {
				r.Cap("%s", st.Capped)
			}
			// long histories around the count limits visible in the code
			k := 0
			for _, n := range c14BulkCounts {
				for _, meta := range []bool{false, true} {
					k++
					if !e.Mine(k) {
						continue
					}
					r.Eval(1)
					r.Distinct("bulk", n, meta)
					if v := c14Bulk(n, meta); v != "" {
						r.Violate(fmt.Sprintf("mux bulk %d frames meta=%v", n, meta), fmt.Sprintf("%s [calls: %d x AddFrame alternating vp8l-opaque/dur100 and alph-odd+vp8/offset,noblend,dispose; metadata set: %v]", v, n, meta), map[string]any{"bulk": n, "meta": meta})
					}
				}
			}
			// writer faults: "what the muxer rejects it rejects with an error, not a corrupt file" also
			// holds when it is the writer that fails - for EVERY number of bytes the writer accepts
			for wi, wh := range c14WriterHistories {
				for _, partial := range []bool{false, true} {
					k++
					if !e.Mine(k) {
						continue
					}
					n, v := c14WriterFaults(wh, partial)
					r.Eval(int64(n))
					r.Distinct("writer-fault", wi, partial)
					if v != "" {
						r.Violate(fmt.Sprintf("mux writer-fault history %d partial=%v", wi, partial), v+" [calls: "+strings.Join(wh, "; ")+"]", map[string]any{"writer": wi, "partial": partial})
					}
				}
			}
			r.SetInfo("bfs_depth_completed", st.Depth)
			if e.Shard == 0 {
				r.SetInfo("frontier_sizes_shard0", st.PerDepth)
				r.Count("call_alphabet", int64(len(c14Ops)))
			}
		},
		Post: func(e *fw.Env, r *fw.Result) { r.States = int64(len(r.DistinctSet)) },
		Replay: func(e *fw.Env, raw json.RawMessage) string {
			pin()
			var rp struct {
				Hist    []int
				Bulk    int
				Meta    bool
				Writer  *int
				Partial bool
			}
			json.Unmarshal(raw, &rp)
			c14Init()
			if rp.Writer != nil {
				_, v := c14WriterFaults(c14WriterHistories[*rp.Writer], rp.Partial)
				return v
			}
			if rp.Bulk > 0 {
				return c14Bulk(rp.Bulk, rp.Meta)
			}
			return c14Sys{}.Exec(rp.Hist).Violation
		},
	})
}

// c14Class keys a violation by its kind and the shortest distinguishing part of the history.
// c14WriterHistories: a simple still, an extended still with alpha and metadata, an animation.
var c14WriterHistories = [][]string{
	{"AddFrame(vp8-odd,nil)"},
	{"AddFrame(alph-odd+vp8,nil)", "SetICCProfile(odd)", "SetXMP(even)"},
	{"AddFrame(vp8l-opaque,dur100)", "AddFrame(alph-even+vp8,dur50-off3,1-noblend-dispose)", "SetEXIF(odd)", "SetLoopCount(1)"},
}

type c14LimitWriter struct {
	limit, got int
	partial    bool
	failed     bool
}

func (w *c14LimitWriter) Write(p []byte) (int, error) {
	room := w.limit - w.got
	if len(p) <= room {
		w.got += len(p)
		return len(p), nil
	}
	w.failed = true
	if w.partial && room > 0 {
		w.got += room
		return room, fmt.Errorf("device full")
	}
	return 0, fmt.Errorf("device full")
}

// c14WriterFaults assembles the history into a writer that accepts n bytes and then fails, for
// every n below the output length. It returns the number of assemblies and the first violation.
func c14WriterFaults(calls []string, partial bool) (count int, v string) {
	defer func() {
		if r := recover(); r != nil {
			v = fmt.Sprintf("Assemble panicked when the writer failed: %v", r)
		}
	}()
	build := func() *mux.Muxer {
		m := mux.NewMuxer()
		md := &mModel{}
		for _, name := range calls {
			found := false
			for i := range c14Ops {
				if c14Ops[i].name == name {
					c14Ops[i].apply(m, md)
					found = true
				}
			}
			if !found {
				panic("c14: no operation " + name)
			}
		}
		return m
	}
	var full bytes.Buffer
	if err := build().Assemble(&full); err != nil {
		return 0, "" // rejected history: nothing to inject into
	}
	for n := 0; n < full.Len(); n++ {
		w := &c14LimitWriter{limit: n, partial: partial}
		err := build().Assemble(w)
		count++
		if w.failed && err == nil {
			return count, fmt.Sprintf("Assemble returned nil although the writer failed after %d of %d bytes (the file is cut short)", w.got, full.Len())
		}
	}
	return count, ""
}

func c14Class(v string, h []int) string {
	if strings.HasPrefix(v, "explicit-canvas still:") {
		return "explicit-canvas still"
	}
	k := stripDigitsAfter(v)
	if len(k) > 90 {
		k = k[:90]
	}
	var frames []string
	for _, i := range h {
		n := c14Ops[i].name
		if strings.HasPrefix(n, "AddFrame(") {
			frames = append(frames, n[9:strings.Index(n, ",")])
		}
	}
	return k + " frames=" + strings.Join(frames, "+")
}
