package checks

import (
	"bytes"
	"encoding/hex"
	"encoding/json"
	"fmt"
	"image"
	"time"

	webp "github.com/deepteams/webp"
	"github.com/deepteams/webp/internal/lossless"
	"github.com/deepteams/webp/internal/zzverif/arb"
	"github.com/deepteams/webp/internal/zzverif/choice"
	"github.com/deepteams/webp/internal/zzverif/fw"
	"github.com/deepteams/webp/internal/zzverif/refdec"
	"github.com/deepteams/webp/internal/zzverif/riffwalk"
	"github.com/deepteams/webp/internal/zzverif/vp8lgen"
)

// C03 — VP8L decoding returns the pixels the format defines, for every valid
// stream of a syntax-directed generator (not only what this encoder emits).

type c03Picker struct {
	c        *choice.Ctx
	restrict map[string][]int // Free menus restricted to these indices (pass B)
}

func (p c03Picker) Pick(n int, label string) int { return p.c.Pick(n, label) }
func (p c03Picker) Free(n int, label string) int {
	if r, ok := p.restrict[label]; ok {
		return r[p.c.PickFree(len(r), label)]
	}
	return p.c.PickFree(n, label)
}

func nrgbaBytes(m *image.NRGBA) []byte {
	w, h := m.Rect.Dx(), m.Rect.Dy()
	out := make([]byte, 0, 4*w*h)
	for y := 0; y < h; y++ {
		out = append(out, m.Pix[y*m.Stride:y*m.Stride+4*w]...)
	}
	return out
}

var c03Stats struct {
	generatorInvalid, refLimit, oracleDisagree int64
}

// c03Judge decodes one stream with everything; "" = held.
func c03Judge(stream []byte) (verdict string) {
	defer func() {
		if r := recover(); r != nil {
			verdict = fmt.Sprintf("decoder panicked: %v", r)
		}
	}()
	file := riffwalk.RIFF(riffwalk.ChunkBytes("VP8L", stream))
	ref, rerr := refdec.DecodeVP8L(stream)
	var want []byte
	var ww, wh int
	if rerr == nil {
		want, ww, wh = nrgbaBytes(ref), ref.Rect.Dx(), ref.Rect.Dy()
	}
	arbOK, aw, ah, apix, aerr := arb.RGBA(file)
	haveArb := aerr == nil
	switch {
	case rerr != nil && haveArb && arbOK:
		// only libwebp accepts: the stream's validity is disputed between the
		// references.  libwebp's pixels are used if this package accepts the
		// stream too; a rejection by this package is then not a violation.
		c03Stats.refLimit++
		want, ww, wh = apix, aw, ah
		if _, err := lossless.DecodeVP8L(stream); err != nil {
			c03Stats.oracleDisagree++
			return ""
		}
	case rerr != nil && haveArb && !arbOK:
		c03Stats.generatorInvalid++
		return "" // both references reject: not a valid stream (generator fault, counted)
	case rerr != nil:
		c03Stats.generatorInvalid++
		return ""
	case haveArb && arbOK && (aw != ww || ah != wh || !bytes.Equal(apix, want)):
		c03Stats.oracleDisagree++
		return "" // the two references disagree: dropped, counted
	case haveArb && !arbOK:
		c03Stats.oracleDisagree++
		return ""
	}
	// this package: public API on the RIFF-wrapped stream and the exported VP8L decoder
	img, err := webp.Decode(bytes.NewReader(file))
	if err != nil {
		return "webp.Decode rejects a valid VP8L stream: " + err.Error()
	}
	got, ok := img.(*image.NRGBA)
	if !ok {
		return fmt.Sprintf("webp.Decode returned %T for a lossless file", img)
	}
	if got.Rect.Dx() != ww || got.Rect.Dy() != wh {
		return fmt.Sprintf("decoded size %dx%d, stream declares %dx%d", got.Rect.Dx(), got.Rect.Dy(), ww, wh)
	}
	gb := nrgbaBytes(got)
	if !bytes.Equal(gb, want) {
		n, f := 0, -1
		for i := 0; i < len(gb); i += 4 {
			if !bytes.Equal(gb[i:i+4], want[i:i+4]) {
				if f < 0 {
					f = i / 4
				}
				n++
			}
		}
		return fmt.Sprintf("%d of %d pixels differ from the specification's result, first at (%d,%d): got %v want %v", n, ww*wh, f%ww, f/ww, gb[4*f:4*f+4], want[4*f:4*f+4])
	}
	d2, err := lossless.DecodeVP8L(stream)
	if err != nil {
		return "lossless.DecodeVP8L rejects the stream that webp.Decode accepts: " + err.Error()
	}
	if !bytes.Equal(nrgbaBytes(d2), want) {
		return "lossless.DecodeVP8L returns different pixels than webp.Decode"
	}
	return ""
}

type c03Replay struct {
	Hex  string
	Desc string
}

func c03Explore(e *fw.Env, r *fw.Result, bound int, restrict map[string][]int, pass string) {
	st := choice.Explore(choice.Config{Bound: bound, Shard: e.Shard, NShard: e.NShard, ShardTop: true, Stop: e.Expired}, func(c *choice.Ctx) {
		// picks are made while generating: shard by top-level subtree
		stream, desc := vp8lgen.Generate(c03Picker{c, restrict}, e.Seed)
		r.Eval(1)
		r.DistinctHash(fw.Hash64(stream))
		if c03Stats.generatorInvalid == 0 {
			r.Sample(3, map[string]any{"pass": pass, "stream": desc, "bytes": len(stream)})
		}
		done := e.Guard(r, 90*time.Second, func() (string, string, any) {
			return "vp8l hang :: " + desc, "decoding used more than 90 CPU-seconds without finishing (hang) [stream: " + desc + "]", c03Replay{hex.EncodeToString(stream), desc}
		})
		v := c03Judge(stream)
		done()
		if v != "" {
			if r.Confirm(2, v, func() string { return c03Judge(stream) }) {
				r.Violate("vp8l "+stripDigitsAfter(first(v))+" :: "+desc, v+" [stream: "+desc+"]", c03Replay{hex.EncodeToString(stream), desc})
			}
		}
	})
	if st.Capped {
		r.Cap("deadline reached in pass %s", pass)
	}
	if e.Shard == 0 {
		r.Count("leaves_"+pass, st.Runs)
	}
}

func init() {
	fw.Register(&fw.Check{
		ID: "C03", Level: "exploration", Shards: shards16,
		Rule:   "syntax-directed VP8L stream generator driven by the explorer: pass A = the full product of all 65 ordered transform subsets x 12 dimensions x 2 tile sizes with at most 1 further deviation; pass B = 10 transform orders x 5 dimensions with at most 2 (thorough 3) deviations; pass C = a 128x160 picture x 5 transform orders with at most 2 deviations (copy lengths up to 4096, i.e. every extra-bit class); deviation menus: predictor tile size and each of the 14 modes (constant / cycling), cross-colour multipliers, palette sizes {1,2,3,4,5,16,17,255,256} with 1/2/4/8-bit packing and indices beyond the palette, colour cache sizes (main image and every sub-image), meta prefix image (one group, checkerboard, sparse ids), prefix-code shapes (simple 1/2 symbols, single-symbol normal code, length-15 skewed in both directions, with/without max_symbol and repeat codes), 8 backward-reference programs (every plane code 1..120, plain distances, overlapping, row/tile-crossing, ending at the image end); oracle: vendored x/image vp8l decoder, libwebp arbitrating; distinct = distinct stream bytes",
		Assume: []string{"a stream both references reject is a generator fault (counted, never a violation); a stream on which the references disagree is dropped and counted", "the exported lossless.DecodeVP8L and webp.Decode on the RIFF-wrapped stream are both exercised"},
		Run: func(e *fw.Env, r *fw.Result) {
			pin()
			small := []int{0, 1, 2, 3, 4, 5, 6, 7, 8, 9, 10, 11, 12}
			c03Explore(e, r, 1, map[string][]int{"dims": small}, "A-full-product")
			bB := 2
			if !e.Quick() {
				bB = 3
			}
			orders := []int{0}
			// representative transform orders: each single transform, palette+predictor (both orders), all four in two orders
			want := [][]int{{0}, {1}, {2}, {3}, {3, 0}, {0, 3}, {2, 0, 1}, {3, 0, 1, 2}, {1, 0, 2, 3}}
			for _, w := range want {
				for i, o := range vp8lgen.TransformOrders {
					if fmt.Sprint(o) == fmt.Sprint(w) {
						orders = append(orders, i)
					}
				}
			}
			c03Explore(e, r, bB, map[string][]int{"transforms": orders, "dims": {0, 3, 5, 8, 10}, "tilebits": {0}}, "B-deviations")
			// pass C: the one large picture (copy lengths with up to 10 extra bits, many tokens at every bit
			// alignment of the reader's window) x 5 transform orders with at most 2 deviations
			c03Explore(e, r, 2, map[string][]int{"transforms": orders[:5], "dims": {13}, "tilebits": {0}}, "C-large-picture")
			r.Count("generator_invalid_streams", c03Stats.generatorInvalid)
			r.Count("vendored_decoder_limit_libwebp_used", c03Stats.refLimit)
			r.Count("oracle_disagreement_dropped", c03Stats.oracleDisagree)
			r.SetInfo("libwebp_arbiter_available", arb.Available())
		},
		Post: func(e *fw.Env, r *fw.Result) {
			if r.Counters["generator_invalid_streams"]*20 > r.Evaluations {
				r.HarnessError("more than 5%% of the generated streams are rejected by both references: generator fault")
			}
		},
		Replay: func(e *fw.Env, raw json.RawMessage) string {
			pin()
			var rp c03Replay
			json.Unmarshal(raw, &rp)
			b, _ := hex.DecodeString(rp.Hex)
			return c03Judge(b)
		},
	})
}
