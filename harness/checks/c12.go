package checks

import (
	"bytes"
	"encoding/json"
	"fmt"
	"image"
	"sort"
	"strings"
	"time"

	webp "github.com/deepteams/webp"
	"github.com/deepteams/webp/animation"
	"github.com/deepteams/webp/internal/zzverif/fw"
	"github.com/deepteams/webp/internal/zzverif/imgs"
	"github.com/deepteams/webp/internal/zzverif/vhook"
	"github.com/deepteams/webp/internal/zzverif/vsync"
)

// C12 — results do not depend on the number of CPUs (GOMAXPROCS).
// Every runtime.GOMAXPROCS(0) call site is a hook (rewrite R1); the check
// enumerates per-site worker-count vectors under the deterministic default
// schedule with fresh pools, so that the result is a function of the vector alone.

type c12Case struct {
	name string
	run  func() []byte
}

// c12Thorough adds larger pictures (more chunks per worker, empty histogram tiles on
// chunk boundaries, several token partitions) to the case list.
var c12Thorough bool

func c12Cases(seed int64) []c12Case {
	pin()
	var out []c12Case
	add := func(n string, f func() []byte) { out = append(out, c12Case{n, f}) }
	lossy := func(m int, q float32) *webp.EncoderOptions {
		o := webp.DefaultOptions()
		o.Method, o.Quality = m, q
		return o
	}
	ll := func(m, q int) *webp.EncoderOptions {
		return &webp.EncoderOptions{Lossless: true, Method: m, Quality: float32(q)}
	}
	noise := imgs.Make(96, 80, "noise", "opaque", seed)
	add("lossy 96x80 noise m4", encBytes(noise, lossy(4, 75)))
	add("lossy 96x80 noise m6 q50", encBytes(noise, lossy(6, 50)))
	add("lossy 96x80 noise m2", encBytes(noise, lossy(2, 75)))
	add("lossy+alpha 96x80 gradient m3", encBytes(imgs.Make(96, 80, "gradient", "agradient", seed), lossy(3, 75)))
	add("lossy 16x80 narrow m4", encBytes(imgs.Make(16, 80, "noise", "opaque", seed), lossy(4, 75)))
	add("lossless 64x64 noise m4 q75", encBytes(imgs.Make(64, 64, "noise", "opaque", seed), ll(4, 75)))
	add("lossless 256x200 regions m4 q75", encBytes(imgs.Make(256, 200, "regions4", "opaque", seed), ll(4, 75)))
	add("lossless 320x320 gradient m6 q100", encBytes(imgs.Make(320, 320, "gradient", "opaque", seed), ll(6, 100)))
	add("lossless 256x200 many m2 q50", encBytes(imgs.Make(256, 200, "many", "binary", seed), ll(2, 50)))
	// cost ties: flat tiles next to textured ones, correlated ramps (tie-breaking must not depend on
	// where a worker's range starts)
	add("lossless 96x96 tiebands m4 q75", encBytes(imgs.Make(96, 96, "tiebands", "opaque", seed), ll(4, 75)))
	add("lossless 200x136 ramptex m4 q75", encBytes(imgs.Make(200, 136, "ramptex", "opaque", seed), ll(4, 75)))
	add("lossless 256x256 ramptex m6 q90", encBytes(imgs.Make(256, 256, "ramptex", "opaque", seed), ll(6, 90)))
	if c12Thorough {
		add("lossless 400x300 ramptex m2 q50", encBytes(imgs.Make(400, 300, "ramptex", "opaque", seed), ll(2, 50)))
		add("lossless 333x217 tiebands m6 q100", encBytes(imgs.Make(333, 217, "tiebands", "opaque", seed), ll(6, 100)))
		add("lossless 517x389 regions m4 q90", encBytes(imgs.Make(517, 389, "regions4", "opaque", seed), ll(4, 90)))
		add("lossless 517x389 patchwork m6 q100", encBytes(imgs.Make(517, 389, "patchwork", "binary", seed), ll(6, 100)))
		add("lossless 400x300 c16 m3 q25", encBytes(imgs.Make(400, 300, "c16", "opaque", seed), ll(3, 25)))
		add("lossy 200x136 many m4 partitions 3", encBytes(imgs.Make(200, 136, "many", "opaque", seed), func() *webp.EncoderOptions { o := lossy(4, 75); o.Partitions = 3; return o }()))
		add("lossy 208x160 noise m5 sharp yuv", encBytes(imgs.Make(208, 160, "noise", "opaque", seed), func() *webp.EncoderOptions { o := lossy(5, 60); o.UseSharpYUV = true; return o }()))
		add("lossy+alpha 208x160 gradient m4 dithered", encBytes(imgs.Make(208, 160, "gradient", "anoise", seed), func() *webp.EncoderOptions { o := lossy(4, 75); o.Preprocessing = 2; return o }()))
		add("lossy 640x48 wide m1", encBytes(imgs.Make(640, 48, "regionsV", "opaque", seed), lossy(1, 75)))
	}
	big := mustEncode(imgs.Make(320, 320, "gradient", "opaque", seed), ll(4, 75))
	add("decode lossless 320x320", decPix(big))
	// wide-and-short pictures and large tiles: a worker's share of the rows is smaller than one
	// transform tile, so chunk boundaries fall inside tile rows
	wide := mustEncode(imgs.Make(1600, 96, "ramptex", "opaque", seed), ll(4, 75))
	add("decode lossless 1600x96 m4", decPix(wide))
	tall := mustEncode(imgs.Make(400, 300, "ramptex", "opaque", seed), ll(1, 75))
	add("decode lossless 400x300 m1 (64-row tiles)", decPix(tall))
	add("lossless 1024x64 ramptex m4 q75", encBytes(imgs.Make(1024, 64, "ramptex", "opaque", seed), ll(4, 75)))
	bigA := mustEncode(imgs.Make(320, 320, "noise", "agradient", seed), lossy(4, 75))
	add("decode lossy+alpha 320x320", decPix(bigA))
	anim := func() []byte {
		var buf bytes.Buffer
		enc := animation.NewEncoder(&buf, 16, 16, &animation.EncodeOptions{Lossless: true, Quality: 75})
		for i := 0; i < 4; i++ {
			enc.AddFrame(imgs.Make(16, 16, "noise", "opaque", seed+int64(i)), 50*time.Millisecond)
		}
		enc.Close()
		return buf.Bytes()
	}()
	add("animation parallel frame decode", func() []byte {
		an, err := animation.DecodeBytes(anim)
		if err != nil {
			return []byte(err.Error())
		}
		if err := an.DecodeFramesParallel(); err != nil {
			return []byte(err.Error())
		}
		var out []byte
		for i := range an.Frames {
			if m, ok := an.Frames[i].Image.(*image.NRGBA); ok {
				out = append(out, m.Pix...)
			}
		}
		return out
	})
	return out
}

// c12Run executes one case with one worker vector (default + per-site overrides)
// under the controlled scheduler's default schedule with fresh pools.
func c12Run(cs *c12Case, def int, sites map[string]int) (string, string) {
	vhook.ClearSites()
	vhook.SetDefault(def)
	for s, n := range sites {
		vhook.SetSite(s, n)
	}
	vsync.SetPoolPolicy(vsync.PoolFresh, nil)
	vsync.ResetPools()
	var out []byte
	res := vsync.Run(func(n, cost int, d string) int { return 0 }, 2000000, false, func() { out = cs.run() })
	return fw.Digest(out) + fmt.Sprintf("/%dB", len(out)), first(res.Verdict)
}

type c12Replay struct {
	Case  string
	Def   int
	Sites map[string]int
	Seed  int64
}

func vecName(def int, sites map[string]int) string {
	var p []string
	for s, n := range sites {
		p = append(p, fmt.Sprintf("%s=%d", s, n))
	}
	sort.Strings(p)
	if len(p) == 0 {
		return fmt.Sprintf("all sites=%d", def)
	}
	return fmt.Sprintf("default=%d, %s", def, strings.Join(p, ", "))
}

func init() {
	fw.Register(&fw.Check{
		ID: "C12", Level: "exploration", Shards: shards16,
		Rule:   "every runtime.GOMAXPROCS(0) call site found in the current tree is hooked (13 today); for 18 (thorough 27: larger pictures with several chunks per worker) (picture, options) cases large enough for every parallel threshold: the all-ones vector (reference), every single site deviating to each of {2,3,5,16}, every uniform vector n=2..16 (thorough 2..33; what a real GOMAXPROCS value produces), every pair of sites deviating to {2,5}; executed under the deterministic default schedule with pools that never reuse, so the result is a function of the vector alone; distinct = distinct (case, vector)",
		Assume: []string{"default (non-preempted) schedule: schedule dependence is C10's subject", "pools never reuse: history dependence is C11's subject", "GOMAXPROCS above 16 (thorough 33) is not run"},
		Run: func(e *fw.Env, r *fw.Result) {
			c12Thorough = !e.Quick()
			cases := c12Cases(e.Seed)
			// discover sites: run every case once with default 2 and record the sites reached
			vhook.ResetSeen()
			type job struct {
				ci    int
				def   int
				sites map[string]int
			}
			refs := make([]string, len(cases))
			reached := make([][]string, len(cases))
			for ci := range cases {
				vhook.ResetSeen()
				d, v := c12Run(&cases[ci], 1, nil)
				if v != "" {
					r.HarnessError("case %s fails under the reference vector: %s", cases[ci].name, v)
				}
				refs[ci] = d
				reached[ci] = vhook.SeenList()
			}
			allSites := map[string]bool{}
			for _, l := range reached {
				for _, s := range l {
					allSites[s] = true
				}
			}
			var jobs []job
			for ci := range cases {
				maxN := 16
				if c12Thorough {
					maxN = 33 // more workers than most loops have rows or tiles
				}
				for n := 2; n <= maxN; n++ {
					jobs = append(jobs, job{ci, n, nil})
				}
				for _, s := range reached[ci] {
					for _, n := range []int{2, 3, 5, 16} {
						jobs = append(jobs, job{ci, 1, map[string]int{s: n}})
					}
				}
				{
					for i, a := range reached[ci] {
						for _, b := range reached[ci][i+1:] {
							for _, n := range []int{2, 5} {
								jobs = append(jobs, job{ci, 1, map[string]int{a: n, b: n}})
							}
						}
					}
				}
			}
			for ji, j := range jobs {
				if !e.Mine(ji) {
					continue
				}
				if e.Expired() {
					r.Cap("deadline reached before all worker vectors were tried")
					break
				}
				cs := &cases[j.ci]
				d, v := c12Run(cs, j.def, j.sites)
				r.Eval(1)
				r.Distinct(cs.name, vecName(j.def, j.sites))
				if ji%41 == 0 {
					r.Sample(4, map[string]any{"case": cs.name, "vector": vecName(j.def, j.sites)})
				}
				bad := ""
				if v != "" {
					bad = "execution failed: " + v
				} else if d != refs[j.ci] {
					bad = fmt.Sprintf("result (digest %s) differs from the all-ones vector's (digest %s)", d, refs[j.ci])
				}
				if bad != "" {
					d2, v2 := c12Run(cs, j.def, j.sites)
					if d2 != d || v2 != v {
						r.HarnessError("worker-vector result not reproducible for %s / %s", cs.name, vecName(j.def, j.sites))
						continue
					}
					// key: the case and, for single-site vectors, the site (so that a new leaking site is still reported)
					key := "workers " + cs.name + " :: " + vecName(j.def, j.sites)
					r.Violate(key, bad+" [case "+cs.name+", worker vector: "+vecName(j.def, j.sites)+"]", c12Replay{cs.name, j.def, j.sites, e.Seed})
				}
			}
			if e.Shard == 0 {
				var sl []string
				for s := range allSites {
					sl = append(sl, s)
				}
				sort.Strings(sl)
				r.SetInfo("worker_sites_reached", sl)
				r.Count("worker_vectors", int64(len(jobs)))
				pr := map[string][]string{}
				for ci := range cases {
					pr[cases[ci].name] = reached[ci]
				}
				r.SetInfo("sites_reached_per_case", pr)
			}
		},
		Replay: func(e *fw.Env, raw json.RawMessage) string {
			var rp c12Replay
			json.Unmarshal(raw, &rp)
			c12Thorough = true
			for _, cs := range c12Cases(rp.Seed) {
				if cs.name == rp.Case {
					cs := cs
					ref, _ := c12Run(&cs, 1, nil)
					d, v := c12Run(&cs, rp.Def, rp.Sites)
					if v != "" {
						return "execution failed: " + v
					}
					if d != ref {
						return fmt.Sprintf("result (digest %s) differs from the all-ones vector's (digest %s)", d, ref)
					}
					return ""
				}
			}
			return "case not found"
		},
	})
}
