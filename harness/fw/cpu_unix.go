//go:build !js

package fw

import "syscall"

// processCPU returns the CPU seconds (user+system) this process has used.
func processCPU() float64 {
	var ru syscall.Rusage
	syscall.Getrusage(syscall.RUSAGE_SELF, &ru)
	return float64(ru.Utime.Sec) + float64(ru.Utime.Usec)/1e6 + float64(ru.Stime.Sec) + float64(ru.Stime.Usec)/1e6
}
