//go:build js

package fw

import "time"

var jsStart = time.Now()

// processCPU: no rusage under js/wasm; wall time stands in (single-threaded runtime).
func processCPU() float64 { return time.Since(jsStart).Seconds() }
