// Package fw is the check framework: sharding over worker processes, result
// merging, known-findings handling, evidence and replay files.
package fw

import (
	"crypto/sha256"
	"encoding/binary"
	"encoding/hex"
	"encoding/json"
	"fmt"
	"hash/fnv"
	"os"
	"os/exec"
	"path/filepath"
	"sort"
	"strconv"
	"strings"
	"sync"
	"time"
)

// Env describes one invocation.
type Env struct {
	ID       string
	Tier     string // quick | thorough
	Seed     int64
	Verif    string
	Repo     string
	BuildDir string
	Shard    int
	NShard   int
	Start    time.Time
	Deadline time.Time // internal deadline: stop early, exit 0, exhaustive:false
	Args     []string
	OutFile  string // child: where the shard result is written
}

func (e *Env) Quick() bool     { return e.Tier != "thorough" }
func (e *Env) Expired() bool   { return time.Now().After(e.Deadline) }
func (e *Env) Mine(k int) bool { return e.NShard <= 1 || k%e.NShard == e.Shard }

// Violation is one property violation.
type Violation struct {
	Key    string          `json:"key"`  // identifies the failing input / call site / history (known-findings match)
	Desc   string          `json:"desc"` // human readable
	Replay json.RawMessage `json:"replay,omitempty"`
	Path   string          `json:"path,omitempty"`
}

// Result is what one shard (or the merged whole) reports.
type Result struct {
	mu           sync.Mutex
	Evaluations  int64               `json:"evaluations"`
	DistinctSet  map[uint64]struct{} `json:"-"`
	DistinctList []uint64            `json:"distinct_list,omitempty"`
	Samples      []any               `json:"samples,omitempty"`
	Violations   []Violation         `json:"violations,omitempty"`
	States       int64               `json:"states"`
	Transitions  int64               `json:"transitions"`
	Traces       int64               `json:"traces"`
	Counters     map[string]int64    `json:"counters,omitempty"`
	Notes        []string            `json:"notes,omitempty"`
	Caps         []string            `json:"caps,omitempty"` // caps / deadlines hit: exhaustive becomes false
	Skipped      []string            `json:"skipped,omitempty"`
	HarnessErr   []string            `json:"harness_errors,omitempty"`
	Info         map[string]any      `json:"info,omitempty"`
	perKey       map[string]int
}

func NewResult() *Result {
	return &Result{DistinctSet: map[uint64]struct{}{}, Counters: map[string]int64{}, Info: map[string]any{}}
}

func (r *Result) Eval(n int64) { r.mu.Lock(); r.Evaluations += n; r.mu.Unlock() }

// Distinct records the identity of a non-trivial case.
func (r *Result) Distinct(parts ...any) {
	h := fnv.New64a()
	fmt.Fprint(h, parts...)
	v := h.Sum64()
	r.mu.Lock()
	r.DistinctSet[v] = struct{}{}
	r.mu.Unlock()
}

func (r *Result) DistinctHash(v uint64) {
	r.mu.Lock()
	r.DistinctSet[v] = struct{}{}
	r.mu.Unlock()
}

func (r *Result) Count(name string, n int64) { r.mu.Lock(); r.Counters[name] += n; r.mu.Unlock() }

func (r *Result) Sample(max int, s any) {
	r.mu.Lock()
	if len(r.Samples) < max {
		r.Samples = append(r.Samples, s)
	}
	r.mu.Unlock()
}

func (r *Result) Note(format string, a ...any) {
	r.mu.Lock()
	if len(r.Notes) < 200 {
		r.Notes = append(r.Notes, fmt.Sprintf(format, a...))
	}
	r.mu.Unlock()
}
func (r *Result) Cap(format string, a ...any) {
	r.mu.Lock()
	s := fmt.Sprintf(format, a...)
	for _, c := range r.Caps {
		if c == s {
			r.mu.Unlock()
			return
		}
	}
	r.Caps = append(r.Caps, s)
	r.mu.Unlock()
}
func (r *Result) Skip(format string, a ...any) {
	r.mu.Lock()
	r.Skipped = append(r.Skipped, fmt.Sprintf(format, a...))
	r.mu.Unlock()
}
func (r *Result) HarnessError(format string, a ...any) {
	r.mu.Lock()
	if len(r.HarnessErr) < 50 {
		r.HarnessErr = append(r.HarnessErr, fmt.Sprintf(format, a...))
	}
	r.mu.Unlock()
}
func (r *Result) SetInfo(k string, v any) { r.mu.Lock(); r.Info[k] = v; r.mu.Unlock() }

// Violate records a violation (at most 400 are kept per shard; the count is exact).
func (r *Result) Violate(key, desc string, replay any) {
	var raw json.RawMessage
	if replay != nil {
		raw, _ = json.Marshal(replay)
	}
	r.mu.Lock()
	r.Counters["violations_total"]++
	// at most 3 stored per key, 400 per shard: thousands of occurrences of one class (a known
	// finding reached by many histories, say) must not crowd out a violation of another class
	if r.perKey == nil {
		r.perKey = map[string]int{}
	}
	r.perKey[key]++
	if r.perKey[key] <= 3 && len(r.Violations) < 400 {
		r.Violations = append(r.Violations, Violation{Key: key, Desc: desc, Replay: raw})
	}
	r.mu.Unlock()
}

// Confirm re-executes f n times; every run must give the same non-empty
// description as first.  A case that does not fail identically every time is a
// harness nondeterminism bug, not a violation.
func (r *Result) Confirm(n int, first string, f func() string) bool {
	for i := 0; i < n; i++ {
		if d := f(); d != first {
			r.HarnessError("non-reproducible violation: first %q, run %d %q", first, i+1, d)
			return false
		}
	}
	return true
}

// Check is one registered property check.
type Check struct {
	ID                          string
	Level                       string // evidence level
	Shards                      func(e *Env) int
	Run                         func(e *Env, r *Result)
	Replay                      func(e *Env, raw json.RawMessage) string // "" = does not violate
	Post                        func(e *Env, r *Result)                  // parent, after merge
	Rule                        string
	Assume                      []string
	QuickBudget, ThoroughBudget time.Duration
}

var registry = map[string]*Check{}

func Register(c *Check) { registry[c.ID] = c }

// KnownFinding is one entry of /verif/known_findings.json.
type KnownFinding struct {
	Property string `json:"property"`
	Status   string `json:"status"` // "open" | "fixed"
	Key      string `json:"key"`    // exact key, or prefix when it ends in '*'
	What     string `json:"what"`
	Commit   string `json:"commit,omitempty"`
}

func loadKnown(verif string) []KnownFinding {
	var k struct {
		Findings []KnownFinding `json:"findings"`
	}
	b, err := os.ReadFile(filepath.Join(verif, "known_findings.json"))
	if err != nil {
		return nil
	}
	if err := json.Unmarshal(b, &k); err != nil {
		fmt.Fprintf(os.Stderr, "harness: known_findings.json: %v\n", err)
		os.Exit(2)
	}
	return k.Findings
}

func matchKnown(kf []KnownFinding, id, key string) *KnownFinding {
	for i := range kf {
		f := &kf[i]
		if f.Property != id || f.Status != "open" {
			continue
		}
		if f.Key == key || strings.HasSuffix(f.Key, "*") && strings.HasPrefix(key, strings.TrimSuffix(f.Key, "*")) {
			return f
		}
	}
	return nil
}

// Main is the harness entry point.
func Main() {
	if len(os.Args) < 3 {
		fmt.Fprintln(os.Stderr, "usage: harness <id> quick|thorough [-shard i/n -out file] | harness <id> --replay path")
		os.Exit(2)
	}
	id := os.Args[1]
	c := registry[id]
	if c == nil {
		var ids []string
		for k := range registry {
			ids = append(ids, k)
		}
		sort.Strings(ids)
		fmt.Fprintf(os.Stderr, "harness: unknown check %q (have %v)\n", id, ids)
		os.Exit(2)
	}
	e := &Env{ID: id, Tier: os.Args[2], Verif: getenv("VERIF_DIR", "/verif"), Repo: getenv("VERIF_REPO", "/repo"),
		BuildDir: getenv("VERIF_BUILD", "/verif/.build/"+id), NShard: 1, Start: time.Now()}
	if t := os.Getenv("VERIF_TIER"); t == "quick" || t == "thorough" {
		if e.Tier != "--replay" && os.Getenv("VERIF_TIER_OVERRIDE") == "1" {
			e.Tier = t
		}
	}
	if s := os.Getenv("VERIF_SEED"); s != "" {
		if v, err := strconv.ParseInt(s, 10, 64); err == nil {
			e.Seed = v
		}
	}
	if e.Tier == "--replay" {
		if len(os.Args) < 4 || c.Replay == nil {
			fmt.Fprintln(os.Stderr, "harness: replay needs a path (or this check has no replay)")
			os.Exit(2)
		}
		b, err := os.ReadFile(os.Args[3])
		if err != nil {
			fmt.Fprintln(os.Stderr, err)
			os.Exit(2)
		}
		var v Violation
		json.Unmarshal(b, &v)
		e.Tier = "quick"
		e.Deadline = time.Now().Add(time.Hour)
		d := c.Replay(e, v.Replay)
		if d == "" {
			fmt.Println("replay: no violation")
			os.Exit(0)
		}
		fmt.Printf("replay: %s\nVIOLATION property=%s replay=%s\n", d, id, os.Args[3])
		os.Exit(1)
	}
	if e.Tier != "quick" && e.Tier != "thorough" {
		fmt.Fprintln(os.Stderr, "harness: tier must be quick or thorough")
		os.Exit(2)
	}
	budget := c.QuickBudget
	if e.Tier == "thorough" {
		budget = c.ThoroughBudget
	}
	if budget == 0 {
		budget = 10 * time.Minute
		if e.Tier == "thorough" {
			budget = 60 * time.Minute
		}
	}
	if s := os.Getenv("VERIF_BUDGET_S"); s != "" {
		if v, err := strconv.Atoi(s); err == nil {
			budget = time.Duration(v) * time.Second
		}
	}
	e.Deadline = e.Start.Add(budget)
	outFile := ""
	for i := 3; i < len(os.Args); i++ {
		switch os.Args[i] {
		case "-shard":
			fmt.Sscanf(os.Args[i+1], "%d/%d", &e.Shard, &e.NShard)
			i++
		case "-out":
			outFile = os.Args[i+1]
			i++
		default:
			e.Args = append(e.Args, os.Args[i])
		}
	}
	if outFile != "" {
		// child
		e.OutFile = outFile
		r := NewResult()
		func() {
			defer func() {
				if p := recover(); p != nil {
					r.HarnessError("shard %d panicked: %v", e.Shard, p)
					panic(p)
				}
			}()
			c.Run(e, r)
		}()
		writeResult(outFile, r)
		return
	}
	os.Exit(parent(c, e))
}

func getenv(k, d string) string {
	if v := os.Getenv(k); v != "" {
		return v
	}
	return d
}

func writeResult(path string, r *Result) {
	r.DistinctList = r.DistinctList[:0]
	for k := range r.DistinctSet {
		r.DistinctList = append(r.DistinctList, k)
	}
	b, err := json.Marshal(r)
	if err != nil {
		fmt.Fprintln(os.Stderr, "harness: marshal result:", err)
		os.Exit(2)
	}
	if err := os.WriteFile(path, b, 0o644); err != nil {
		fmt.Fprintln(os.Stderr, "harness:", err)
		os.Exit(2)
	}
}

func merge(dst, src *Result) {
	dst.Evaluations += src.Evaluations
	for _, k := range src.DistinctList {
		dst.DistinctSet[k] = struct{}{}
	}
	for _, s := range src.Samples {
		if len(dst.Samples) < 12 {
			dst.Samples = append(dst.Samples, s)
		}
	}
	dst.Violations = append(dst.Violations, src.Violations...)
	dst.States += src.States
	dst.Transitions += src.Transitions
	dst.Traces += src.Traces
	for k, v := range src.Counters {
		dst.Counters[k] += v
	}
	for _, n := range src.Notes {
		if len(dst.Notes) < 100 {
			dst.Notes = append(dst.Notes, n)
		}
	}
	for _, c := range src.Caps {
		dst.Cap("%s", c)
	}
	dst.Skipped = append(dst.Skipped, src.Skipped...)
	dst.HarnessErr = append(dst.HarnessErr, src.HarnessErr...)
	for k, v := range src.Info {
		if _, ok := dst.Info[k]; !ok {
			dst.Info[k] = v
		}
	}
}

func parent(c *Check, e *Env) int {
	n := 1
	if c.Shards != nil {
		n = c.Shards(e)
	}
	if s := os.Getenv("VERIF_SHARDS"); s != "" {
		if v, err := strconv.Atoi(s); err == nil && v > 0 {
			n = v
		}
	}
	tmp := filepath.Join(e.BuildDir, "shards")
	os.RemoveAll(tmp)
	os.MkdirAll(tmp, 0o755)
	exe, _ := os.Executable()
	total := NewResult()
	var wg sync.WaitGroup
	var mu sync.Mutex
	failed := []string{}
	for i := 0; i < n; i++ {
		wg.Add(1)
		go func(i int) {
			defer wg.Done()
			out := filepath.Join(tmp, fmt.Sprintf("shard-%d.json", i))
			args := []string{c.ID, e.Tier, "-shard", fmt.Sprintf("%d/%d", i, n), "-out", out}
			args = append(args, e.Args...)
			cmd := exec.Command(exe, args...)
			cmd.Env = append(os.Environ(), "GOMAXPROCS="+gomaxprocsFor(n))
			logf, _ := os.Create(filepath.Join(tmp, fmt.Sprintf("shard-%d.log", i)))
			cmd.Stdout = logf
			cmd.Stderr = logf
			err := cmd.Run()
			logf.Close()
			mu.Lock()
			defer mu.Unlock()
			if err != nil {
				lg, _ := os.ReadFile(filepath.Join(tmp, fmt.Sprintf("shard-%d.log", i)))
				if len(lg) > 4000 {
					lg = lg[len(lg)-4000:]
				}
				failed = append(failed, fmt.Sprintf("shard %d: %v\n%s", i, err, lg))
			}
			b, rerr := os.ReadFile(out)
			if rerr != nil {
				if err == nil {
					failed = append(failed, fmt.Sprintf("shard %d: no result file", i))
				}
				return
			}
			var r Result
			if jerr := json.Unmarshal(b, &r); jerr != nil {
				failed = append(failed, fmt.Sprintf("shard %d: %v", i, jerr))
				return
			}
			merge(total, &r)
		}(i)
	}
	wg.Wait()
	if c.Post != nil {
		c.Post(e, total)
	}
	return Finish(c, e, total, failed)
}

func gomaxprocsFor(shards int) string {
	if shards >= 8 {
		return "2"
	}
	if shards >= 4 {
		return "4"
	}
	return "16"
}

// Finish applies the known-findings file, writes evidence and replay files,
// prints the verdict lines and returns the exit status.
func Finish(c *Check, e *Env, total *Result, failed []string) int {
	known := loadKnown(e.Verif)
	evDir := filepath.Join(e.Verif, "evidence")
	rpDir := filepath.Join(e.Verif, "replays")
	if d := os.Getenv("VERIF_EVIDENCE_DIR"); d != "" {
		// runs against seeded changes must not overwrite the committed evidence
		evDir, rpDir = d, filepath.Join(d, "replays")
	}
	os.MkdirAll(rpDir, 0o755)
	if old, _ := filepath.Glob(filepath.Join(rpDir, c.ID+"-*.json")); len(old) > 0 {
		for _, p := range old {
			os.Remove(p)
		}
	}
	os.MkdirAll(evDir, 0o755)
	sort.SliceStable(total.Violations, func(i, j int) bool { return total.Violations[i].Key < total.Violations[j].Key })
	knownHit := map[string]int{}
	knownWhat := map[string]string{}
	var fresh []Violation
	seenKey := map[string]bool{}
	for _, v := range total.Violations {
		if f := matchKnown(known, c.ID, v.Key); f != nil {
			knownHit[f.Key]++
			knownWhat[f.Key] = f.What
			continue
		}
		if seenKey[v.Key] {
			continue
		}
		seenKey[v.Key] = true
		fresh = append(fresh, v)
	}
	var khKeys []string
	for k := range knownHit {
		khKeys = append(khKeys, k)
	}
	sort.Strings(khKeys)
	for _, k := range khKeys {
		fmt.Printf("KNOWN-FINDING: property=%s %s [key %s, %d case(s) this run]\n", c.ID, knownWhat[k], k, knownHit[k])
	}
	shown := 0
	for i := range fresh {
		v := &fresh[i]
		sum := sha256.Sum256([]byte(v.Key + "\x00" + v.Desc))
		v.Path = filepath.Join(rpDir, fmt.Sprintf("%s-%s.json", c.ID, hex.EncodeToString(sum[:6])))
		b, _ := json.MarshalIndent(v, "", " ")
		os.WriteFile(v.Path, b, 0o644)
		if shown < 25 {
			fmt.Printf("violation: %s\n  key: %s\nVIOLATION property=%s replay=%s\n", v.Desc, v.Key, c.ID, v.Path)
			shown++
		}
	}
	if len(fresh) > shown {
		fmt.Printf("... %d more distinct violations (replay files written)\n", len(fresh)-shown)
	}
	for _, f := range failed {
		fmt.Fprintf(os.Stderr, "harness error: %s\n", f)
	}
	for _, f := range total.HarnessErr {
		fmt.Fprintf(os.Stderr, "harness error: %s\n", f)
	}
	exhaustive := len(total.Caps) == 0 && len(total.Skipped) == 0 && len(failed) == 0 && len(total.HarnessErr) == 0
	cov := map[string]any{
		"evaluations":         total.Evaluations,
		"distinct_nontrivial": len(total.DistinctSet),
		"rule":                c.Rule,
		"samples":             total.Samples,
		"exhaustive":          exhaustive,
		"counters":            total.Counters,
	}
	if c.Level == "model_checking" {
		cov["states"] = total.States
		cov["transitions"] = total.Transitions
		cov["traces_validated_against_impl"] = total.Traces
	}
	if len(total.Caps) > 0 {
		cov["caps_hit"] = total.Caps
	}
	if len(total.Skipped) > 0 {
		cov["skipped"] = total.Skipped
	}
	if len(total.Notes) > 0 {
		cov["notes"] = total.Notes
	}
	if len(khKeys) > 0 {
		cov["known_findings_reproduced"] = knownHit
	}
	for k, v := range total.Info {
		cov[k] = v
	}
	if b, err := os.ReadFile(filepath.Join(e.BuildDir, "instr_report.json")); err == nil {
		var rep map[string]any
		if json.Unmarshal(b, &rep) == nil {
			cov["instrumentation"] = rep
		}
	}
	if len(total.Samples) == 0 {
		cov["samples"] = []any{"(no case executed)"}
	}
	ev := map[string]any{
		"property_id": c.ID,
		"tier":        e.Tier,
		"seed":        e.Seed,
		"level":       c.Level,
		"coverage":    cov,
		"assumptions": c.Assume,
		"wall_s":      time.Since(e.Start).Seconds(),
		"violations":  len(fresh),
		"repo":        e.Repo,
	}
	b, _ := json.MarshalIndent(ev, "", " ")
	evPath := filepath.Join(evDir, c.ID+".json")
	if err := os.WriteFile(evPath, b, 0o644); err != nil {
		fmt.Fprintln(os.Stderr, "harness:", err)
		return 2
	}
	fmt.Printf("%s %s: evaluations=%d distinct=%d states=%d transitions=%d violations=%d known=%d exhaustive=%v wall=%.1fs\n",
		c.ID, e.Tier, total.Evaluations, len(total.DistinctSet), total.States, total.Transitions, len(fresh), len(khKeys), exhaustive, time.Since(e.Start).Seconds())
	if len(fresh) > 0 {
		return 1
	}
	if len(failed) > 0 || len(total.HarnessErr) > 0 {
		return 2
	}
	return 0
}

// Hash64 of arbitrary bytes.
func Hash64(b []byte) uint64 {
	h := fnv.New64a()
	h.Write(b)
	return h.Sum64()
}

// Digest is a short hex digest.
func Digest(parts ...[]byte) string {
	h := sha256.New()
	var l [8]byte
	for _, p := range parts {
		binary.LittleEndian.PutUint64(l[:], uint64(len(p)))
		h.Write(l[:])
		h.Write(p)
	}
	return hex.EncodeToString(h.Sum(nil)[:8])
}

// ---- hang guard

type guardState struct {
	mu       sync.Mutex
	active   bool
	started  time.Time
	info     func() (key, desc string, replay any)
	r        *Result
	e        *Env
	limit    time.Duration
	startCPU float64
}

var guard guardState
var guardOnce sync.Once

// Guard protects one case against a hang (a decoder that loops forever cannot
// be interrupted): if the case has used more CPU time than limit - orders of
// magnitude above its normal cost - or made no progress for ten times the limit
// of wall-clock time, the violation described
// by info is recorded, the shard result is written and the process exits;
// the rest of the shard is reported as capped.  Call the returned func when
// the case is over.
func (e *Env) Guard(r *Result, limit time.Duration, info func() (key, desc string, replay any)) func() {
	guardOnce.Do(func() {
		go func() {
			for {
				time.Sleep(500 * time.Millisecond)
				guard.mu.Lock()
				// a hang is an endless loop (the process burns CPU for longer than the limit) or a
				// deadlock (no progress for ten times the limit); wall time alone is not an oracle:
				// a starved process on a loaded machine is slow, not hung
				if guard.active && (processCPU()-guard.startCPU > guard.limit.Seconds() || time.Since(guard.started) > 10*guard.limit) {
					k, d, rp := guard.info()
					rr, ee := guard.r, guard.e
					guard.mu.Unlock()
					rr.Violate(k, d, rp)
					rr.Cap("shard %d stopped by the hang guard; its remaining cases were not run", ee.Shard)
					if ee.OutFile != "" {
						writeResult(ee.OutFile, rr)
					}
					os.Exit(0)
				}
				guard.mu.Unlock()
			}
		}()
	})
	guard.mu.Lock()
	guard.active, guard.started, guard.info, guard.r, guard.e, guard.limit = true, time.Now(), info, r, e, limit
	guard.startCPU = processCPU()
	guard.mu.Unlock()
	return func() {
		guard.mu.Lock()
		guard.active = false
		guard.mu.Unlock()
	}
}
