// Package choice is the explorer: a body calls Pick wherever it needs a
// decision; Explore re-runs the body depth-first over the whole choice tree
// (full mode) or over every leaf whose non-default picks cost at most Bound
// (deviation-bounded mode, CHESS-style).  Choice 0 is always the default.
package choice

import (
	"fmt"
	"strings"
)

// Rec is one recorded pick.
type Rec struct {
	N     int    `json:"n"`
	C     int    `json:"c"`
	Cost  int    `json:"cost"` // cost of a non-zero alternative at this point
	Label string `json:"l,omitempty"`
}

// Ctx is handed to the body for one execution.
type Ctx struct {
	prefix []int
	Recs   []Rec
	// Skip is set by the body (via Mine) when this leaf belongs to another shard.
	skipped bool
	leaf    *int64
	shard   int
	nshard  int
}

// DivergenceError is a hard harness error: a replayed prefix did not fit.
type DivergenceError struct{ Msg string }

func (e DivergenceError) Error() string { return e.Msg }

// Pick returns a value in [0,n); a non-zero value costs 1 deviation.
func (c *Ctx) Pick(n int, label string) int { return c.PickCost(n, 1, label) }

// PickFree is a pick whose alternatives cost nothing (a full-product dimension).
func (c *Ctx) PickFree(n int, label string) int { return c.PickCost(n, 0, label) }

func (c *Ctx) PickCost(n, cost int, label string) int {
	if n <= 0 {
		panic(fmt.Sprintf("choice: Pick(%d,%s)", n, label))
	}
	i := len(c.Recs)
	v := 0
	if i < len(c.prefix) {
		v = c.prefix[i]
		if v < 0 || v >= n {
			panic(DivergenceError{fmt.Sprintf("replay diverged at pick %d (%s): choice %d of %d", i, label, v, n)})
		}
	}
	c.Recs = append(c.Recs, Rec{N: n, C: v, Cost: cost, Label: label})
	return v
}

// Mine reports whether this leaf belongs to the current shard.  It must be
// called after all picks and before any expensive work.
func (c *Ctx) Mine() bool {
	if c.nshard <= 1 {
		return true
	}
	k := *c.leaf
	*c.leaf = k + 1
	if int(k%int64(c.nshard)) != c.shard {
		c.skipped = true
		return false
	}
	return true
}

// Picks returns the pick vector of this execution.
func (c *Ctx) Picks() []int {
	out := make([]int, len(c.Recs))
	for i, r := range c.Recs {
		out[i] = r.C
	}
	return out
}

// Describe renders the non-default picks.
func (c *Ctx) Describe() string {
	var sb strings.Builder
	for _, r := range c.Recs {
		if r.Label != "" && (r.C != 0 || r.Cost == 0) {
			fmt.Fprintf(&sb, "%s=%d ", r.Label, r.C)
		}
	}
	return strings.TrimSpace(sb.String())
}

// Deviations is the total cost of the picks taken.
func (c *Ctx) Deviations() int {
	d := 0
	for _, r := range c.Recs {
		if r.C != 0 {
			d += r.Cost
		}
	}
	return d
}

// Config of one exploration.
type Config struct {
	Bound  int // max total cost; <0: unbounded (full tree)
	Shard  int
	NShard int
	// MaxRuns > 0 caps the number of executions (reported as Capped).
	MaxRuns int64
	// Stop, if set, is polled between executions (deadline): exploring stops.
	Stop func() bool
	// Root restricts exploration to the subtree below this prefix.
	Root []int
	// ShardTop shards by top-level subtree (for bodies whose picks are
	// interleaved with execution, e.g. schedules): the root execution is run
	// by every shard, its k-th child subtree only by shard k % NShard.
	ShardTop bool
}

// Stats of one exploration.
type Stats struct {
	Runs     int64 // executions of body (including skipped leaves)
	Executed int64 // leaves not skipped by Mine
	MaxDepth int
	Capped   bool
}

// Explore runs body over the choice tree.
func Explore(cfg Config, body func(c *Ctx)) Stats {
	var st Stats
	var leaf int64
	var topChild int64
	var rec func(prefix []int)
	stopped := false
	rec = func(prefix []int) {
		if stopped {
			return
		}
		if cfg.MaxRuns > 0 && st.Runs >= cfg.MaxRuns || cfg.Stop != nil && cfg.Stop() {
			st.Capped = true
			stopped = true
			return
		}
		c := &Ctx{prefix: prefix, leaf: &leaf, shard: cfg.Shard, nshard: cfg.NShard}
		if cfg.ShardTop {
			c.nshard = 1
		}
		body(c)
		st.Runs++
		if !c.skipped {
			st.Executed++
		}
		if len(c.Recs) < len(prefix) {
			panic(DivergenceError{fmt.Sprintf("replay diverged: prefix of %d picks, execution made %d", len(prefix), len(c.Recs))})
		}
		if len(c.Recs) > st.MaxDepth {
			st.MaxDepth = len(c.Recs)
		}
		// cost of the picks before position i
		cost := 0
		for i := 0; i < len(prefix); i++ {
			if c.Recs[i].C != 0 {
				cost += c.Recs[i].Cost
			}
		}
		recs := c.Recs
		for i := len(prefix); i < len(recs); i++ {
			r := recs[i]
			if r.N > 1 && (cfg.Bound < 0 || cost+r.Cost <= cfg.Bound) {
				for alt := 1; alt < r.N; alt++ {
					if cfg.ShardTop && len(prefix) == len(cfg.Root) && cfg.NShard > 1 {
						k := topChild
						topChild++
						if int(k%int64(cfg.NShard)) != cfg.Shard {
							continue
						}
					}
					np := make([]int, i+1)
					for k := 0; k < i; k++ {
						np[k] = recs[k].C
					}
					np[i] = alt
					rec(np)
					if stopped {
						return
					}
				}
			}
			// recs[i].C is 0 here (beyond the prefix the default is taken)
		}
	}
	rec(append([]int(nil), cfg.Root...))
	return st
}

// Replay runs body once on exactly the given pick vector.
func Replay(picks []int, body func(c *Ctx)) *Ctx {
	c := &Ctx{prefix: picks, nshard: 1}
	var leaf int64
	c.leaf = &leaf
	body(c)
	return c
}
