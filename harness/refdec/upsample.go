package refdec

import "image"

// Reference colour conversion for lossy frames with alpha: libwebp's "fancy"
// 4:2:0 upsampler (9-3-3-1 diamond kernel, src/dsp/upsampling.c) followed by
// its 14-bit fixed-point BT.601 conversion (src/dsp/yuv.h), written here from
// those definitions.

func multHi(v, c int) int { return (v * c) >> 8 }

func clip8(v int) uint8 {
	const fix2 = 6
	const mask2 = (256 << fix2) - 1
	if v&^mask2 == 0 {
		return uint8(v >> fix2)
	}
	if v < 0 {
		return 0
	}
	return 255
}

// YUVToRGB is VP8YuvToRgb.
func YUVToRGB(y, u, v int) (r, g, b uint8) {
	r = clip8(multHi(y, 19077) + multHi(v, 26149) - 14234)
	g = clip8(multHi(y, 19077) - multHi(u, 6419) - multHi(v, 13320) + 8708)
	b = clip8(multHi(y, 19077) + multHi(u, 33050) - 17685)
	return
}

// upsampleLinePair renders one or two luma rows (bottomY may be nil).
func upsampleLinePair(topY, bottomY, topU, topV, curU, curV []byte, topDst, bottomDst []byte, n int) {
	put := func(dst []byte, x int, y byte, u, v int) {
		r, g, b := YUVToRGB(int(y), u, v)
		dst[4*x], dst[4*x+1], dst[4*x+2] = r, g, b
	}
	last := (n - 1) >> 1
	tlU, tlV := int(topU[0]), int(topV[0])
	lU, lV := int(curU[0]), int(curV[0])
	put(topDst, 0, topY[0], (3*tlU+lU+2)>>2, (3*tlV+lV+2)>>2)
	if bottomY != nil {
		put(bottomDst, 0, bottomY[0], (3*lU+tlU+2)>>2, (3*lV+tlV+2)>>2)
	}
	for x := 1; x <= last; x++ {
		tU, tV := int(topU[x]), int(topV[x])
		cU, cV := int(curU[x]), int(curV[x])
		avgU := tlU + tU + lU + cU + 8
		avgV := tlV + tV + lV + cV + 8
		d12U, d12V := (avgU+2*(tU+lU))>>3, (avgV+2*(tV+lV))>>3
		d03U, d03V := (avgU+2*(tlU+cU))>>3, (avgV+2*(tlV+cV))>>3
		put(topDst, 2*x-1, topY[2*x-1], (d12U+tlU)>>1, (d12V+tlV)>>1)
		put(topDst, 2*x, topY[2*x], (d03U+tU)>>1, (d03V+tV)>>1)
		if bottomY != nil {
			put(bottomDst, 2*x-1, bottomY[2*x-1], (d03U+lU)>>1, (d03V+lV)>>1)
			put(bottomDst, 2*x, bottomY[2*x], (d12U+cU)>>1, (d12V+cV)>>1)
		}
		tlU, tlV, lU, lV = tU, tV, cU, cV
	}
	if n&1 == 0 {
		put(topDst, n-1, topY[n-1], (3*tlU+lU+2)>>2, (3*tlV+lV+2)>>2)
		if bottomY != nil {
			put(bottomDst, n-1, bottomY[n-1], (3*lU+tlU+2)>>2, (3*lV+tlV+2)>>2)
		}
	}
}

// FancyNRGBA converts 4:2:0 planes plus an alpha plane (nil = opaque) to
// non-premultiplied RGBA exactly as libwebp's decoder does (EmitFancyRGB).
func FancyNRGBA(w, h int, y []byte, ys int, u, v []byte, cs int, alpha []byte) *image.NRGBA {
	out := image.NewNRGBA(image.Rect(0, 0, w, h))
	row := func(j int) []byte { return out.Pix[j*out.Stride : j*out.Stride+4*w] }
	yr := func(j int) []byte { return y[j*ys : j*ys+w] }
	cw := (w + 1) / 2
	ur := func(k int) []byte { return u[k*cs : k*cs+cw] }
	vr := func(k int) []byte { return v[k*cs : k*cs+cw] }
	// first row: chroma row 0 replicated
	upsampleLinePair(yr(0), nil, ur(0), vr(0), ur(0), vr(0), row(0), nil, w)
	k := 1
	for j := 1; j+1 < h; j += 2 {
		upsampleLinePair(yr(j), yr(j+1), ur(k-1), vr(k-1), ur(k), vr(k), row(j), row(j+1), w)
		k++
	}
	if h > 1 && h%2 == 0 {
		upsampleLinePair(yr(h-1), nil, ur(k-1), vr(k-1), ur(k-1), vr(k-1), row(h-1), nil, w)
	}
	for j := 0; j < h; j++ {
		for i := 0; i < w; i++ {
			a := byte(255)
			if alpha != nil {
				a = alpha[j*w+i]
			}
			out.Pix[j*out.Stride+4*i+3] = a
		}
	}
	return out
}

// ToNRGBA renders a decoded frame as non-premultiplied RGBA.
func ToNRGBA(d *Decoded) *image.NRGBA {
	if d.NRGBA != nil {
		return d.NRGBA
	}
	m := d.YCbCr
	yo := m.YOffset(m.Rect.Min.X, m.Rect.Min.Y)
	co := m.COffset(m.Rect.Min.X, m.Rect.Min.Y)
	return FancyNRGBA(d.W, d.H, m.Y[yo:], m.YStride, m.Cb[co:], m.Cr[co:], m.CStride, d.Alpha)
}
