// Package refdec is the reference decoding stack: riffwalk (container) +
// vendored golang.org/x/image vp8 / vp8l (bitstreams) + an ALPH decoder, a
// fancy upsampler and a compositor written from the specifications.  Nothing
// here imports deepteams/webp code.
package refdec

import (
	"bytes"
	"errors"
	"fmt"
	"image"

	"github.com/deepteams/webp/internal/zzverif/riffwalk"
	"github.com/deepteams/webp/internal/zzverif/ximage/vp8"
	"github.com/deepteams/webp/internal/zzverif/ximage/vp8l"
)

// Decoded is the reference result for one frame.
type Decoded struct {
	W, H  int
	NRGBA *image.NRGBA // lossless frames
	YCbCr *image.YCbCr // lossy frames
	Alpha []byte       // lossy frames with a non-empty ALPH chunk: W*H bytes
}

// DecodeVP8L decodes a VP8L payload.
func DecodeVP8L(b []byte) (img *image.NRGBA, err error) {
	defer func() {
		if r := recover(); r != nil {
			err = fmt.Errorf("reference VP8L decoder panic: %v", r)
		}
	}()
	m, err := vp8l.Decode(bytes.NewReader(b))
	if err != nil {
		return nil, err
	}
	n, ok := m.(*image.NRGBA)
	if !ok {
		return nil, fmt.Errorf("reference VP8L decoder returned %T", m)
	}
	return n, nil
}

// DecodeVP8 decodes a VP8 key frame; skipFilter returns the reconstruction
// before in-loop deblocking.
func DecodeVP8(b []byte, skipFilter bool) (img *image.YCbCr, err error) {
	defer func() {
		if r := recover(); r != nil {
			err = fmt.Errorf("reference VP8 decoder panic: %v", r)
		}
	}()
	d := vp8.NewDecoder()
	d.SkipLoopFilter = skipFilter
	d.Init(bytes.NewReader(b), len(b))
	if _, err := d.DecodeFrameHeader(); err != nil {
		return nil, err
	}
	m, err := d.DecodeFrame()
	if err != nil {
		return nil, err
	}
	// copy: the decoder owns the planes
	c := *m
	c.Y = append([]byte(nil), m.Y...)
	c.Cb = append([]byte(nil), m.Cb...)
	c.Cr = append([]byte(nil), m.Cr...)
	return &c, nil
}

// DecodeALPH decodes an ALPH chunk payload for a w x h picture according to
// the container specification.
func DecodeALPH(p []byte, w, h int) (alpha []byte, err error) {
	defer func() {
		if r := recover(); r != nil {
			err = fmt.Errorf("reference ALPH decoder panic: %v", r)
		}
	}()
	if len(p) < 1 {
		return nil, errors.New("empty ALPH payload")
	}
	hdr := p[0]
	comp := hdr & 3
	filter := hdr >> 2 & 3
	// pre-processing (bits 4-5) is informative; reserved bits 6-7 are ignored by readers
	switch comp {
	case 0:
		if len(p)-1 < w*h {
			return nil, fmt.Errorf("raw alpha: %d bytes for %dx%d", len(p)-1, w, h)
		}
		alpha = append([]byte(nil), p[1:1+w*h]...)
	case 1:
		// headerless VP8L stream: synthesise the 5-byte header
		hd := []byte{0x2f, 0, 0, 0, 0}
		bits := uint32(w-1) | uint32(h-1)<<14
		hd[1], hd[2], hd[3], hd[4] = byte(bits), byte(bits>>8), byte(bits>>16), byte(bits>>24)
		m, err := DecodeVP8L(append(hd, p[1:]...))
		if err != nil {
			return nil, err
		}
		alpha = make([]byte, w*h)
		for y := 0; y < h; y++ {
			for x := 0; x < w; x++ {
				alpha[y*w+x] = m.Pix[y*m.Stride+4*x+1] // green
			}
		}
	default:
		return nil, fmt.Errorf("ALPH compression method %d", comp)
	}
	Unfilter(alpha, w, h, int(filter))
	return alpha, nil
}

// Unfilter applies the inverse of prediction filter f (0 none, 1 horizontal,
// 2 vertical, 3 gradient) in place.
func Unfilter(a []byte, w, h, f int) {
	if f == 0 {
		return
	}
	for y := 0; y < h; y++ {
		for x := 0; x < w; x++ {
			var pred int
			switch {
			case x == 0 && y == 0:
				pred = 0
			case y == 0:
				pred = int(a[x-1])
			case x == 0:
				pred = int(a[(y-1)*w])
			default:
				l, t, tl := int(a[y*w+x-1]), int(a[(y-1)*w+x]), int(a[(y-1)*w+x-1])
				switch f {
				case 1:
					pred = l
				case 2:
					pred = t
				case 3:
					pred = l + t - tl
					if pred < 0 {
						pred = 0
					}
					if pred > 255 {
						pred = 255
					}
				}
			}
			a[y*w+x] = byte(int(a[y*w+x]) + pred)
		}
	}
}

// DecodeFrame decodes one parsed frame.
func DecodeFrame(fr *riffwalk.Frame) (*Decoded, error) {
	if fr.Lossless {
		m, err := DecodeVP8L(fr.Bitstream)
		if err != nil {
			return nil, err
		}
		return &Decoded{W: m.Rect.Dx(), H: m.Rect.Dy(), NRGBA: m}, nil
	}
	m, err := DecodeVP8(fr.Bitstream, false)
	if err != nil {
		return nil, err
	}
	d := &Decoded{W: m.Rect.Dx(), H: m.Rect.Dy(), YCbCr: m}
	if fr.HasALPH && len(fr.Alpha) > 0 {
		a, err := DecodeALPH(fr.Alpha, d.W, d.H)
		if err != nil {
			return nil, fmt.Errorf("ALPH: %w", err)
		}
		d.Alpha = a
	}
	return d, nil
}

// DecodeStill parses data and decodes its single frame.
func DecodeStill(data []byte) (*riffwalk.File, *Decoded, error) {
	f, err := riffwalk.Parse(data)
	if err != nil {
		return f, nil, err
	}
	if f.Animated || len(f.Frames) != 1 {
		return f, nil, fmt.Errorf("not a still file (%d frames)", len(f.Frames))
	}
	d, err := DecodeFrame(&f.Frames[0])
	return f, d, err
}
