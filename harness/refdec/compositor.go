package refdec

import (
	"fmt"
	"image"
	"image/color"
)

// Reference compositor (DESIGN.md 2.5), written from the container
// specification's "Assembling the Canvas from Frames": start from a
// transparent canvas; before rendering a frame, clear the previous frame's
// rectangle if that frame asked for disposal to background; then overwrite or
// alpha-blend the (clipped) frame rectangle.  There is no key-frame shortcut.

// RFrame is a frame as the compositor sees it.
type RFrame struct {
	X, Y    int
	Img     *image.NRGBA // frame pixels, origin at its own Rect.Min
	NoBlend bool
	Dispose bool
}

func (f *RFrame) Rect() image.Rectangle {
	return image.Rect(f.X, f.Y, f.X+f.Img.Rect.Dx(), f.Y+f.Img.Rect.Dy())
}

// LibwebpBlend is libwebp's documented integer arithmetic
// (BlendPixelNonPremult), applied as libwebp applies it: only for source
// pixels that are not opaque.
func LibwebpBlend(src, dst color.NRGBA) color.NRGBA {
	if src.A == 255 {
		return src
	}
	if src.A == 0 {
		return dst
	}
	sa, da := uint32(src.A), uint32(dst.A)
	df := (da * (256 - sa)) >> 8
	ba := sa + df
	scale := uint32(1<<24) / ba
	ch := func(s, d uint8) uint8 {
		return uint8(((uint32(s)*sa + uint32(d)*df) * scale) >> 24)
	}
	return color.NRGBA{ch(src.R, dst.R), ch(src.G, dst.G), ch(src.B, dst.B), uint8(ba)}
}

// BlendAccept reports whether got is an acceptable result of blending src over
// dst: libwebp's integer formula (what the package documents), or the
// specification's real-valued formula to within rounding (|error| < 1 per
// component).
func BlendAccept(src, dst, got color.NRGBA) bool {
	if got == LibwebpBlend(src, dst) {
		return true
	}
	sa, da := float64(src.A), float64(dst.A)
	a := sa + da*(255-sa)/255
	if a <= 0 {
		return got.A == 0
	}
	near := func(g uint8, want float64) bool {
		d := float64(g) - want
		return d > -1 && d < 1
	}
	if !near(got.A, a) {
		return false
	}
	ch := func(s, d uint8) float64 {
		return (float64(s)*sa + float64(d)*da*(255-sa)/255) / a
	}
	return near(got.R, ch(src.R, dst.R)) && near(got.G, ch(src.G, dst.G)) && near(got.B, ch(src.B, dst.B))
}

// CheckStep verifies one compositing step: given the canvas shown for the
// previous frame (nil before the first frame), the previous frame's rectangle
// and dispose flag, and the new frame, got must be the specified new canvas.
// transparentEqual makes alpha-0 pixels equal regardless of colour.
func CheckStep(w, h int, prev *image.NRGBA, prevRect image.Rectangle, prevDispose bool, f *RFrame, got *image.NRGBA, transparentEqual bool) string {
	if got == nil || got.Rect.Dx() != w || got.Rect.Dy() != h {
		return fmt.Sprintf("canvas snapshot has bounds %v, want %dx%d", boundsOf(got), w, h)
	}
	canvas := image.Rect(0, 0, w, h)
	fr := f.Rect().Intersect(canvas)
	dr := prevRect.Intersect(canvas)
	for y := 0; y < h; y++ {
		for x := 0; x < w; x++ {
			var base color.NRGBA
			if prev != nil {
				base = prev.NRGBAAt(prev.Rect.Min.X+x, prev.Rect.Min.Y+y)
			}
			if prevDispose && image.Pt(x, y).In(dr) {
				base = color.NRGBA{}
			}
			g := got.NRGBAAt(got.Rect.Min.X+x, got.Rect.Min.Y+y)
			if !image.Pt(x, y).In(fr) {
				if g != base && !(transparentEqual && g.A == 0 && base.A == 0) {
					return fmt.Sprintf("pixel (%d,%d) outside the frame rectangle is %v, previous canvas (after disposal) has %v", x, y, g, base)
				}
				continue
			}
			src := f.Img.NRGBAAt(f.Img.Rect.Min.X+x-f.X, f.Img.Rect.Min.Y+y-f.Y)
			if f.NoBlend {
				if g != src && !(transparentEqual && g.A == 0 && src.A == 0) {
					return fmt.Sprintf("pixel (%d,%d): frame overwrites with %v, canvas has %v", x, y, src, g)
				}
				continue
			}
			if !BlendAccept(src, base, g) && !(transparentEqual && g.A == 0 && LibwebpBlend(src, base).A == 0) {
				return fmt.Sprintf("pixel (%d,%d): blending %v over %v gives %v; libwebp arithmetic gives %v", x, y, src, base, g, LibwebpBlend(src, base))
			}
		}
	}
	return ""
}

func boundsOf(m *image.NRGBA) image.Rectangle {
	if m == nil {
		return image.Rectangle{}
	}
	return m.Rect
}

// Compose renders the whole frame list with libwebp's arithmetic and returns
// the canvas after every frame (used where a unique expected picture is
// needed, e.g. lossless animations whose blends are all degenerate).
func Compose(w, h int, frames []RFrame) []*image.NRGBA {
	var out []*image.NRGBA
	cur := image.NewNRGBA(image.Rect(0, 0, w, h))
	var prevRect image.Rectangle
	prevDispose := false
	canvas := image.Rect(0, 0, w, h)
	for i := range frames {
		f := &frames[i]
		if prevDispose {
			r := prevRect.Intersect(canvas)
			for y := r.Min.Y; y < r.Max.Y; y++ {
				for x := r.Min.X; x < r.Max.X; x++ {
					cur.SetNRGBA(x, y, color.NRGBA{})
				}
			}
		}
		r := f.Rect().Intersect(canvas)
		for y := r.Min.Y; y < r.Max.Y; y++ {
			for x := r.Min.X; x < r.Max.X; x++ {
				src := f.Img.NRGBAAt(f.Img.Rect.Min.X+x-f.X, f.Img.Rect.Min.Y+y-f.Y)
				if f.NoBlend {
					cur.SetNRGBA(x, y, src)
				} else {
					cur.SetNRGBA(x, y, LibwebpBlend(src, cur.NRGBAAt(x, y)))
				}
			}
		}
		snap := image.NewNRGBA(cur.Rect)
		copy(snap.Pix, cur.Pix)
		out = append(out, snap)
		prevRect, prevDispose = f.Rect(), f.Dispose
	}
	return out
}
