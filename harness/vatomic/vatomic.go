// Package vatomic replaces sync/atomic in the instrumented tree (rewrite R2).
// Pass-through mode delegates to sync/atomic; in controlled mode every
// operation is a scheduling point executed under sequential consistency.
package vatomic

import (
	"fmt"
	"sync/atomic"
	"unsafe"

	"github.com/deepteams/webp/internal/zzverif/vsync"
)

func pt(op string, p any) {
	if vsync.Controlled() {
		vsync.Point(fmt.Sprintf("atomic-%s #%d", op, vsync.ObjID(p)))
	}
}

type Int32 struct{ v atomic.Int32 }

func (x *Int32) Load() int32                    { pt("load", x); return x.v.Load() }
func (x *Int32) Store(n int32)                  { pt("store", x); x.v.Store(n) }
func (x *Int32) Add(d int32) int32              { pt("add", x); return x.v.Add(d) }
func (x *Int32) Swap(n int32) int32             { pt("swap", x); return x.v.Swap(n) }
func (x *Int32) CompareAndSwap(o, n int32) bool { pt("cas", x); return x.v.CompareAndSwap(o, n) }
func (x *Int32) And(m int32) int32              { pt("and", x); return x.v.And(m) }
func (x *Int32) Or(m int32) int32               { pt("or", x); return x.v.Or(m) }

func LoadInt32(p *int32) int32          { pt("load", p); return atomic.LoadInt32(p) }
func StoreInt32(p *int32, n int32)      { pt("store", p); atomic.StoreInt32(p, n) }
func AddInt32(p *int32, d int32) int32  { pt("add", p); return atomic.AddInt32(p, d) }
func SwapInt32(p *int32, n int32) int32 { pt("swap", p); return atomic.SwapInt32(p, n) }
func CompareAndSwapInt32(p *int32, o, n int32) bool {
	pt("cas", p)
	return atomic.CompareAndSwapInt32(p, o, n)
}

type Int64 struct{ v atomic.Int64 }

func (x *Int64) Load() int64                    { pt("load", x); return x.v.Load() }
func (x *Int64) Store(n int64)                  { pt("store", x); x.v.Store(n) }
func (x *Int64) Add(d int64) int64              { pt("add", x); return x.v.Add(d) }
func (x *Int64) Swap(n int64) int64             { pt("swap", x); return x.v.Swap(n) }
func (x *Int64) CompareAndSwap(o, n int64) bool { pt("cas", x); return x.v.CompareAndSwap(o, n) }
func (x *Int64) And(m int64) int64              { pt("and", x); return x.v.And(m) }
func (x *Int64) Or(m int64) int64               { pt("or", x); return x.v.Or(m) }

func LoadInt64(p *int64) int64          { pt("load", p); return atomic.LoadInt64(p) }
func StoreInt64(p *int64, n int64)      { pt("store", p); atomic.StoreInt64(p, n) }
func AddInt64(p *int64, d int64) int64  { pt("add", p); return atomic.AddInt64(p, d) }
func SwapInt64(p *int64, n int64) int64 { pt("swap", p); return atomic.SwapInt64(p, n) }
func CompareAndSwapInt64(p *int64, o, n int64) bool {
	pt("cas", p)
	return atomic.CompareAndSwapInt64(p, o, n)
}

type Uint32 struct{ v atomic.Uint32 }

func (x *Uint32) Load() uint32                    { pt("load", x); return x.v.Load() }
func (x *Uint32) Store(n uint32)                  { pt("store", x); x.v.Store(n) }
func (x *Uint32) Add(d uint32) uint32             { pt("add", x); return x.v.Add(d) }
func (x *Uint32) Swap(n uint32) uint32            { pt("swap", x); return x.v.Swap(n) }
func (x *Uint32) CompareAndSwap(o, n uint32) bool { pt("cas", x); return x.v.CompareAndSwap(o, n) }
func (x *Uint32) And(m uint32) uint32             { pt("and", x); return x.v.And(m) }
func (x *Uint32) Or(m uint32) uint32              { pt("or", x); return x.v.Or(m) }

func LoadUint32(p *uint32) uint32           { pt("load", p); return atomic.LoadUint32(p) }
func StoreUint32(p *uint32, n uint32)       { pt("store", p); atomic.StoreUint32(p, n) }
func AddUint32(p *uint32, d uint32) uint32  { pt("add", p); return atomic.AddUint32(p, d) }
func SwapUint32(p *uint32, n uint32) uint32 { pt("swap", p); return atomic.SwapUint32(p, n) }
func CompareAndSwapUint32(p *uint32, o, n uint32) bool {
	pt("cas", p)
	return atomic.CompareAndSwapUint32(p, o, n)
}

type Uint64 struct{ v atomic.Uint64 }

func (x *Uint64) Load() uint64                    { pt("load", x); return x.v.Load() }
func (x *Uint64) Store(n uint64)                  { pt("store", x); x.v.Store(n) }
func (x *Uint64) Add(d uint64) uint64             { pt("add", x); return x.v.Add(d) }
func (x *Uint64) Swap(n uint64) uint64            { pt("swap", x); return x.v.Swap(n) }
func (x *Uint64) CompareAndSwap(o, n uint64) bool { pt("cas", x); return x.v.CompareAndSwap(o, n) }
func (x *Uint64) And(m uint64) uint64             { pt("and", x); return x.v.And(m) }
func (x *Uint64) Or(m uint64) uint64              { pt("or", x); return x.v.Or(m) }

func LoadUint64(p *uint64) uint64           { pt("load", p); return atomic.LoadUint64(p) }
func StoreUint64(p *uint64, n uint64)       { pt("store", p); atomic.StoreUint64(p, n) }
func AddUint64(p *uint64, d uint64) uint64  { pt("add", p); return atomic.AddUint64(p, d) }
func SwapUint64(p *uint64, n uint64) uint64 { pt("swap", p); return atomic.SwapUint64(p, n) }
func CompareAndSwapUint64(p *uint64, o, n uint64) bool {
	pt("cas", p)
	return atomic.CompareAndSwapUint64(p, o, n)
}

type Uintptr struct{ v atomic.Uintptr }

func (x *Uintptr) Load() uintptr                    { pt("load", x); return x.v.Load() }
func (x *Uintptr) Store(n uintptr)                  { pt("store", x); x.v.Store(n) }
func (x *Uintptr) Add(d uintptr) uintptr            { pt("add", x); return x.v.Add(d) }
func (x *Uintptr) Swap(n uintptr) uintptr           { pt("swap", x); return x.v.Swap(n) }
func (x *Uintptr) CompareAndSwap(o, n uintptr) bool { pt("cas", x); return x.v.CompareAndSwap(o, n) }
func (x *Uintptr) And(m uintptr) uintptr            { pt("and", x); return x.v.And(m) }
func (x *Uintptr) Or(m uintptr) uintptr             { pt("or", x); return x.v.Or(m) }

func LoadUintptr(p *uintptr) uintptr            { pt("load", p); return atomic.LoadUintptr(p) }
func StoreUintptr(p *uintptr, n uintptr)        { pt("store", p); atomic.StoreUintptr(p, n) }
func AddUintptr(p *uintptr, d uintptr) uintptr  { pt("add", p); return atomic.AddUintptr(p, d) }
func SwapUintptr(p *uintptr, n uintptr) uintptr { pt("swap", p); return atomic.SwapUintptr(p, n) }
func CompareAndSwapUintptr(p *uintptr, o, n uintptr) bool {
	pt("cas", p)
	return atomic.CompareAndSwapUintptr(p, o, n)
}

type Bool struct{ v atomic.Bool }

func (x *Bool) Load() bool                    { pt("load", x); return x.v.Load() }
func (x *Bool) Store(n bool)                  { pt("store", x); x.v.Store(n) }
func (x *Bool) Swap(n bool) bool              { pt("swap", x); return x.v.Swap(n) }
func (x *Bool) CompareAndSwap(o, n bool) bool { pt("cas", x); return x.v.CompareAndSwap(o, n) }

type Pointer[T any] struct{ v atomic.Pointer[T] }

func (x *Pointer[T]) Load() *T                    { pt("load", x); return x.v.Load() }
func (x *Pointer[T]) Store(n *T)                  { pt("store", x); x.v.Store(n) }
func (x *Pointer[T]) Swap(n *T) *T                { pt("swap", x); return x.v.Swap(n) }
func (x *Pointer[T]) CompareAndSwap(o, n *T) bool { pt("cas", x); return x.v.CompareAndSwap(o, n) }

type Value struct{ v atomic.Value }

func (x *Value) Load() any                    { pt("load", x); return x.v.Load() }
func (x *Value) Store(n any)                  { pt("store", x); x.v.Store(n) }
func (x *Value) Swap(n any) any               { pt("swap", x); return x.v.Swap(n) }
func (x *Value) CompareAndSwap(o, n any) bool { pt("cas", x); return x.v.CompareAndSwap(o, n) }

func LoadPointer(p *unsafe.Pointer) unsafe.Pointer     { pt("load", p); return atomic.LoadPointer(p) }
func StorePointer(p *unsafe.Pointer, n unsafe.Pointer) { pt("store", p); atomic.StorePointer(p, n) }
