// Package vatomic replaces sync/atomic in the instrumented tree (rewrite R2).
// Pass-through mode delegates to sync/atomic; in controlled mode every
// operation is a scheduling point executed under sequential consistency.
package vatomic

import (
	"fmt"
	"sync/atomic"
	"unsafe"

	"github.com/deepteams/webp/internal/zzverif/vsync"
)

func pt(op string, p any) {
	if vsync.Controlled() {
		vsync.Point(fmt.Sprintf("atomic-%s #%d", op, vsync.ObjID(p)))
	}
}

func af(op string) {
	if vsync.Controlled() {
		vsync.After("atomic-" + op)
	}
}

type Int32 struct{ v atomic.Int32 }

func (x *Int32) Load() int32        { pt("load", x); return x.v.Load() }
func (x *Int32) Store(n int32)      { pt("store", x); x.v.Store(n); af("store") }
func (x *Int32) Add(d int32) int32  { pt("add", x); r := x.v.Add(d); af("add"); return r }
func (x *Int32) Swap(n int32) int32 { pt("swap", x); r := x.v.Swap(n); af("swap"); return r }
func (x *Int32) CompareAndSwap(o, n int32) bool {
	pt("cas", x)
	r := x.v.CompareAndSwap(o, n)
	af("cas")
	return r
}
func (x *Int32) And(m int32) int32 { pt("and", x); r := x.v.And(m); af("and"); return r }
func (x *Int32) Or(m int32) int32  { pt("or", x); r := x.v.Or(m); af("or"); return r }

func LoadInt32(p *int32) int32         { pt("load", p); return atomic.LoadInt32(p) }
func StoreInt32(p *int32, n int32)     { pt("store", p); atomic.StoreInt32(p, n); af("store") }
func AddInt32(p *int32, d int32) int32 { pt("add", p); r := atomic.AddInt32(p, d); af("add"); return r }
func SwapInt32(p *int32, n int32) int32 {
	pt("swap", p)
	r := atomic.SwapInt32(p, n)
	af("swap")
	return r
}
func CompareAndSwapInt32(p *int32, o, n int32) bool {
	pt("cas", p)
	r := atomic.CompareAndSwapInt32(p, o, n)
	af("cas")
	return r
}

type Int64 struct{ v atomic.Int64 }

func (x *Int64) Load() int64        { pt("load", x); return x.v.Load() }
func (x *Int64) Store(n int64)      { pt("store", x); x.v.Store(n); af("store") }
func (x *Int64) Add(d int64) int64  { pt("add", x); r := x.v.Add(d); af("add"); return r }
func (x *Int64) Swap(n int64) int64 { pt("swap", x); r := x.v.Swap(n); af("swap"); return r }
func (x *Int64) CompareAndSwap(o, n int64) bool {
	pt("cas", x)
	r := x.v.CompareAndSwap(o, n)
	af("cas")
	return r
}
func (x *Int64) And(m int64) int64 { pt("and", x); r := x.v.And(m); af("and"); return r }
func (x *Int64) Or(m int64) int64  { pt("or", x); r := x.v.Or(m); af("or"); return r }

func LoadInt64(p *int64) int64         { pt("load", p); return atomic.LoadInt64(p) }
func StoreInt64(p *int64, n int64)     { pt("store", p); atomic.StoreInt64(p, n); af("store") }
func AddInt64(p *int64, d int64) int64 { pt("add", p); r := atomic.AddInt64(p, d); af("add"); return r }
func SwapInt64(p *int64, n int64) int64 {
	pt("swap", p)
	r := atomic.SwapInt64(p, n)
	af("swap")
	return r
}
func CompareAndSwapInt64(p *int64, o, n int64) bool {
	pt("cas", p)
	r := atomic.CompareAndSwapInt64(p, o, n)
	af("cas")
	return r
}

type Uint32 struct{ v atomic.Uint32 }

func (x *Uint32) Load() uint32         { pt("load", x); return x.v.Load() }
func (x *Uint32) Store(n uint32)       { pt("store", x); x.v.Store(n); af("store") }
func (x *Uint32) Add(d uint32) uint32  { pt("add", x); r := x.v.Add(d); af("add"); return r }
func (x *Uint32) Swap(n uint32) uint32 { pt("swap", x); r := x.v.Swap(n); af("swap"); return r }
func (x *Uint32) CompareAndSwap(o, n uint32) bool {
	pt("cas", x)
	r := x.v.CompareAndSwap(o, n)
	af("cas")
	return r
}
func (x *Uint32) And(m uint32) uint32 { pt("and", x); r := x.v.And(m); af("and"); return r }
func (x *Uint32) Or(m uint32) uint32  { pt("or", x); r := x.v.Or(m); af("or"); return r }

func LoadUint32(p *uint32) uint32     { pt("load", p); return atomic.LoadUint32(p) }
func StoreUint32(p *uint32, n uint32) { pt("store", p); atomic.StoreUint32(p, n); af("store") }
func AddUint32(p *uint32, d uint32) uint32 {
	pt("add", p)
	r := atomic.AddUint32(p, d)
	af("add")
	return r
}
func SwapUint32(p *uint32, n uint32) uint32 {
	pt("swap", p)
	r := atomic.SwapUint32(p, n)
	af("swap")
	return r
}
func CompareAndSwapUint32(p *uint32, o, n uint32) bool {
	pt("cas", p)
	r := atomic.CompareAndSwapUint32(p, o, n)
	af("cas")
	return r
}

type Uint64 struct{ v atomic.Uint64 }

func (x *Uint64) Load() uint64         { pt("load", x); return x.v.Load() }
func (x *Uint64) Store(n uint64)       { pt("store", x); x.v.Store(n); af("store") }
func (x *Uint64) Add(d uint64) uint64  { pt("add", x); r := x.v.Add(d); af("add"); return r }
func (x *Uint64) Swap(n uint64) uint64 { pt("swap", x); r := x.v.Swap(n); af("swap"); return r }
func (x *Uint64) CompareAndSwap(o, n uint64) bool {
	pt("cas", x)
	r := x.v.CompareAndSwap(o, n)
	af("cas")
	return r
}
func (x *Uint64) And(m uint64) uint64 { pt("and", x); r := x.v.And(m); af("and"); return r }
func (x *Uint64) Or(m uint64) uint64  { pt("or", x); r := x.v.Or(m); af("or"); return r }

func LoadUint64(p *uint64) uint64     { pt("load", p); return atomic.LoadUint64(p) }
func StoreUint64(p *uint64, n uint64) { pt("store", p); atomic.StoreUint64(p, n); af("store") }
func AddUint64(p *uint64, d uint64) uint64 {
	pt("add", p)
	r := atomic.AddUint64(p, d)
	af("add")
	return r
}
func SwapUint64(p *uint64, n uint64) uint64 {
	pt("swap", p)
	r := atomic.SwapUint64(p, n)
	af("swap")
	return r
}
func CompareAndSwapUint64(p *uint64, o, n uint64) bool {
	pt("cas", p)
	r := atomic.CompareAndSwapUint64(p, o, n)
	af("cas")
	return r
}

type Uintptr struct{ v atomic.Uintptr }

func (x *Uintptr) Load() uintptr          { pt("load", x); return x.v.Load() }
func (x *Uintptr) Store(n uintptr)        { pt("store", x); x.v.Store(n); af("store") }
func (x *Uintptr) Add(d uintptr) uintptr  { pt("add", x); r := x.v.Add(d); af("add"); return r }
func (x *Uintptr) Swap(n uintptr) uintptr { pt("swap", x); r := x.v.Swap(n); af("swap"); return r }
func (x *Uintptr) CompareAndSwap(o, n uintptr) bool {
	pt("cas", x)
	r := x.v.CompareAndSwap(o, n)
	af("cas")
	return r
}
func (x *Uintptr) And(m uintptr) uintptr { pt("and", x); r := x.v.And(m); af("and"); return r }
func (x *Uintptr) Or(m uintptr) uintptr  { pt("or", x); r := x.v.Or(m); af("or"); return r }

func LoadUintptr(p *uintptr) uintptr     { pt("load", p); return atomic.LoadUintptr(p) }
func StoreUintptr(p *uintptr, n uintptr) { pt("store", p); atomic.StoreUintptr(p, n); af("store") }
func AddUintptr(p *uintptr, d uintptr) uintptr {
	pt("add", p)
	r := atomic.AddUintptr(p, d)
	af("add")
	return r
}
func SwapUintptr(p *uintptr, n uintptr) uintptr {
	pt("swap", p)
	r := atomic.SwapUintptr(p, n)
	af("swap")
	return r
}
func CompareAndSwapUintptr(p *uintptr, o, n uintptr) bool {
	pt("cas", p)
	r := atomic.CompareAndSwapUintptr(p, o, n)
	af("cas")
	return r
}

type Bool struct{ v atomic.Bool }

func (x *Bool) Load() bool       { pt("load", x); return x.v.Load() }
func (x *Bool) Store(n bool)     { pt("store", x); x.v.Store(n); af("store") }
func (x *Bool) Swap(n bool) bool { pt("swap", x); r := x.v.Swap(n); af("swap"); return r }
func (x *Bool) CompareAndSwap(o, n bool) bool {
	pt("cas", x)
	r := x.v.CompareAndSwap(o, n)
	af("cas")
	return r
}

type Pointer[T any] struct{ v atomic.Pointer[T] }

func (x *Pointer[T]) Load() *T     { pt("load", x); return x.v.Load() }
func (x *Pointer[T]) Store(n *T)   { pt("store", x); x.v.Store(n); af("store") }
func (x *Pointer[T]) Swap(n *T) *T { pt("swap", x); r := x.v.Swap(n); af("swap"); return r }
func (x *Pointer[T]) CompareAndSwap(o, n *T) bool {
	pt("cas", x)
	r := x.v.CompareAndSwap(o, n)
	af("cas")
	return r
}

type Value struct{ v atomic.Value }

func (x *Value) Load() any      { pt("load", x); return x.v.Load() }
func (x *Value) Store(n any)    { pt("store", x); x.v.Store(n); af("store") }
func (x *Value) Swap(n any) any { pt("swap", x); r := x.v.Swap(n); af("swap"); return r }
func (x *Value) CompareAndSwap(o, n any) bool {
	pt("cas", x)
	r := x.v.CompareAndSwap(o, n)
	af("cas")
	return r
}

func LoadPointer(p *unsafe.Pointer) unsafe.Pointer { pt("load", p); return atomic.LoadPointer(p) }
func StorePointer(p *unsafe.Pointer, n unsafe.Pointer) {
	pt("store", p)
	atomic.StorePointer(p, n)
	af("store")
}
