package vsync

import (
	"fmt"
	"runtime"
	"sort"
	"strings"
	"sync"
)

// PoolPolicy selects what Pool.Get returns.  The runtime's sync.Pool (per-P
// caches, cleared by the GC) is nondeterminism the harness must own, so no
// check ever runs with PoolReal except the free-running -race pass.
type PoolPolicy int

const (
	PoolReal       PoolPolicy = iota // delegate to sync.Pool
	PoolFresh                        // Get never returns a pooled object (fresh-process semantics)
	PoolMostRecent                   // LIFO: Get returns the most recently Put object
	PoolExplore                      // every Get with k pooled objects is a (k+1)-way choice
)

var (
	poolMu     sync.Mutex
	poolPolicy = PoolReal
	poolChoose func(p *Pool, k int) int
	registry   []*Pool
)

// SetPoolPolicy must be called while no library call is in flight.
func SetPoolPolicy(p PoolPolicy, choose func(p *Pool, k int) int) {
	poolMu.Lock()
	poolPolicy = p
	poolChoose = choose
	poolMu.Unlock()
}

// Pool mirrors sync.Pool.
type Pool struct {
	New func() any

	real  sync.Pool
	once  sync.Once
	name  string
	items []any
	gets  int
	hits  int
	puts  int
}

func (p *Pool) register() {
	p.once.Do(func() {
		name := "?"
		for skip := 3; skip < 8; skip++ {
			pc, file, line, ok := runtime.Caller(skip)
			if !ok {
				break
			}
			if strings.Contains(file, "zzverif/vsync") {
				continue
			}
			fn := runtime.FuncForPC(pc).Name()
			if i := strings.LastIndex(fn, "/"); i >= 0 {
				fn = fn[i+1:]
			}
			_ = line
			name = fn
			break
		}
		p.name = name
		p.real.New = nil
		poolMu.Lock()
		registry = append(registry, p)
		poolMu.Unlock()
	})
}

// Name identifies the pool by the first function that used it.
func (p *Pool) Name() string { return p.name }

func (p *Pool) Get() any {
	p.register()
	if controlled {
		if aborted() {
			if p.New != nil {
				return p.New()
			}
			return nil
		}
		point(fmt.Sprintf("poolget %s", p.name), nil)
	}
	poolMu.Lock()
	pol := poolPolicy
	p.gets++
	var v any
	switch pol {
	case PoolReal:
		poolMu.Unlock()
		v = p.real.Get()
		if v == nil && p.New != nil {
			v = p.New()
		}
		return v
	case PoolFresh:
	case PoolMostRecent:
		if n := len(p.items); n > 0 {
			v = p.items[n-1]
			p.items = p.items[:n-1]
			p.hits++
		}
	case PoolExplore:
		if k := len(p.items); k > 0 {
			ch := poolChoose
			poolMu.Unlock()
			c := ch(p, k)
			poolMu.Lock()
			if c > 0 {
				i := len(p.items) - c // 1 = most recent
				v = p.items[i]
				p.items = append(p.items[:i], p.items[i+1:]...)
				p.hits++
			}
		}
	}
	poolMu.Unlock()
	if v == nil && p.New != nil {
		v = p.New()
	}
	return v
}

func (p *Pool) Put(x any) {
	p.register()
	if x == nil {
		return
	}
	if controlled {
		if aborted() {
			return
		}
		point(fmt.Sprintf("poolput %s", p.name), nil)
	}
	poolMu.Lock()
	pol := poolPolicy
	p.puts++
	switch pol {
	case PoolReal:
		poolMu.Unlock()
		p.real.Put(x)
		return
	case PoolFresh:
		// dropped
	default:
		p.items = append(p.items, x)
	}
	poolMu.Unlock()
	if controlled && !aborted() {
		// A second scheduling point AFTER the hand-over: what the caller still does with the
		// object (or with memory it owns) after Put is not ordered before another thread's Get,
		// and those plain accesses are no scheduling points themselves. Without this point the
		// block "Put; keep using the object" would be atomic and use-after-release invisible.
		point(fmt.Sprintf("poolput-done %s", p.name), nil)
	}
}

// ResetPools empties every pool and zeroes the counters.
func ResetPools() {
	poolMu.Lock()
	for _, p := range registry {
		p.items = nil
		p.gets, p.hits, p.puts = 0, 0, 0
	}
	poolMu.Unlock()
}

// PoolStat is a snapshot of one pool's counters.
type PoolStat struct {
	Name                     string
	Gets, Hits, Puts, Pooled int
}

func PoolStats() []PoolStat {
	poolMu.Lock()
	m := map[string]*PoolStat{}
	for _, p := range registry {
		s := m[p.name]
		if s == nil {
			s = &PoolStat{Name: p.name}
			m[p.name] = s
		}
		s.Gets += p.gets
		s.Hits += p.hits
		s.Puts += p.puts
		s.Pooled += len(p.items)
	}
	poolMu.Unlock()
	var out []PoolStat
	for _, s := range m {
		out = append(out, *s)
	}
	sort.Slice(out, func(i, j int) bool { return out[i].Name < out[j].Name })
	return out
}

// TotalHits is the number of Gets served from a pool since the last reset.
func TotalHits() int {
	n := 0
	for _, s := range PoolStats() {
		n += s.Hits
	}
	return n
}
