package vsync

import (
	"fmt"
	"sync"
)

// Locker mirrors sync.Locker.
type Locker interface {
	Lock()
	Unlock()
}

// ---------------------------------------------------------------- Mutex

type Mutex struct {
	real   sync.Mutex
	locked bool
}

func (m *Mutex) Lock() {
	if !controlled {
		m.real.Lock()
		return
	}
	if aborted() {
		return
	}
	point(fmt.Sprintf("lock #%d", objID(m)), func() bool { return !m.locked })
	m.locked = true
}

func (m *Mutex) TryLock() bool {
	if !controlled {
		return m.real.TryLock()
	}
	if aborted() {
		return true
	}
	point(fmt.Sprintf("trylock #%d", objID(m)), nil)
	if m.locked {
		return false
	}
	m.locked = true
	return true
}

func (m *Mutex) Unlock() {
	if !controlled {
		m.real.Unlock()
		return
	}
	if aborted() {
		return
	}
	point(fmt.Sprintf("unlock #%d", objID(m)), nil)
	if !m.locked {
		panic("vsync: unlock of unlocked mutex")
	}
	m.locked = false
	after("unlock")
}

// ---------------------------------------------------------------- RWMutex

type RWMutex struct {
	real    sync.RWMutex
	writer  bool
	readers int
}

func (m *RWMutex) Lock() {
	if !controlled {
		m.real.Lock()
		return
	}
	if aborted() {
		return
	}
	point(fmt.Sprintf("wlock #%d", objID(m)), func() bool { return !m.writer && m.readers == 0 })
	m.writer = true
}
func (m *RWMutex) Unlock() {
	if !controlled {
		m.real.Unlock()
		return
	}
	if aborted() {
		return
	}
	point(fmt.Sprintf("wunlock #%d", objID(m)), nil)
	m.writer = false
	after("wunlock")
}
func (m *RWMutex) RLock() {
	if !controlled {
		m.real.RLock()
		return
	}
	if aborted() {
		return
	}
	point(fmt.Sprintf("rlock #%d", objID(m)), func() bool { return !m.writer })
	m.readers++
}
func (m *RWMutex) RUnlock() {
	if !controlled {
		m.real.RUnlock()
		return
	}
	if aborted() {
		return
	}
	point(fmt.Sprintf("runlock #%d", objID(m)), nil)
	m.readers--
	after("runlock")
}
func (m *RWMutex) RLocker() Locker { return (*rlocker)(m) }

type rlocker RWMutex

func (r *rlocker) Lock()   { (*RWMutex)(r).RLock() }
func (r *rlocker) Unlock() { (*RWMutex)(r).RUnlock() }

// ---------------------------------------------------------------- WaitGroup

type WaitGroup struct {
	real sync.WaitGroup
	n    int
}

func (w *WaitGroup) Add(d int) {
	if !controlled {
		w.real.Add(d)
		return
	}
	if aborted() {
		return
	}
	point(fmt.Sprintf("wgadd #%d", objID(w)), nil)
	w.n += d
	if w.n < 0 {
		panic("vsync: negative WaitGroup counter")
	}
	if d < 0 {
		after("wgdone")
	}
}
func (w *WaitGroup) Done() { w.Add(-1) }
func (w *WaitGroup) Wait() {
	if !controlled {
		w.real.Wait()
		return
	}
	if aborted() {
		return
	}
	point(fmt.Sprintf("wgwait #%d", objID(w)), func() bool { return w.n == 0 })
}

// Go mirrors (*sync.WaitGroup).Go of newer toolchains.
func (w *WaitGroup) Go(f func()) {
	w.Add(1)
	Go(func() {
		defer w.Done()
		f()
	})
}

// ---------------------------------------------------------------- Once

type Once struct {
	real  sync.Once
	state int // 0 new, 1 running, 2 done
}

func (o *Once) Do(f func()) {
	if !controlled {
		o.real.Do(func() {
			f()
			o.state = 2
		})
		return
	}
	if aborted() {
		return
	}
	if o.state == 2 {
		// A completed Once never changes again and what it guards is
		// immutable: not a scheduling point (DESIGN.md C10).
		return
	}
	point(fmt.Sprintf("once #%d", objID(o)), func() bool { return o.state != 1 })
	if o.state == 2 {
		return
	}
	o.state = 1
	defer func() { o.state = 2 }()
	// keep the real Once coherent for later pass-through use
	o.real.Do(f)
}

// OnceFunc / OnceValue mirror the sync helpers.
func OnceFunc(f func()) func() {
	var o Once
	return func() { o.Do(f) }
}
func OnceValue[T any](f func() T) func() T {
	var o Once
	var v T
	return func() T {
		o.Do(func() { v = f() })
		return v
	}
}

// ---------------------------------------------------------------- Cond

type Cond struct {
	L       Locker
	real    *sync.Cond
	mk      sync.Once
	waiters []*condWaiter
}

type condWaiter struct{ signalled bool }

func NewCond(l Locker) *Cond { return &Cond{L: l} }

func (c *Cond) r() *sync.Cond {
	c.mk.Do(func() { c.real = sync.NewCond(c.L) })
	return c.real
}

// Wait: as in package sync the caller is added to the notify list while it
// still holds L; it then unlocks, blocks until signalled and relocks.  A
// Broadcast that happens before the enqueue is lost.
func (c *Cond) Wait() {
	if !controlled {
		c.r().Wait()
		return
	}
	if aborted() {
		return
	}
	point(fmt.Sprintf("condwait #%d", objID(c)), nil)
	w := &condWaiter{}
	c.waiters = append(c.waiters, w)
	c.unlockNoPoint()
	point(fmt.Sprintf("condblock #%d", objID(c)), func() bool { return w.signalled })
	c.L.Lock()
}

func (c *Cond) unlockNoPoint() {
	switch l := c.L.(type) {
	case *Mutex:
		if !l.locked {
			panic("vsync: Cond.Wait with unlocked mutex")
		}
		l.locked = false
	case *RWMutex:
		l.writer = false
	default:
		c.L.Unlock()
	}
}

func (c *Cond) Signal() {
	if !controlled {
		c.r().Signal()
		return
	}
	if aborted() {
		return
	}
	point(fmt.Sprintf("signal #%d", objID(c)), nil)
	if len(c.waiters) > 0 {
		c.waiters[0].signalled = true
		c.waiters = c.waiters[1:]
	}
	after("signal")
}

func (c *Cond) Broadcast() {
	if !controlled {
		c.r().Broadcast()
		return
	}
	if aborted() {
		return
	}
	point(fmt.Sprintf("broadcast #%d", objID(c)), nil)
	for _, w := range c.waiters {
		w.signalled = true
	}
	c.waiters = nil
	after("broadcast")
}

// ---------------------------------------------------------------- Chan

// Chan replaces `chan T` in rewritten functions (instrumenter, R2).
type Chan[T any] struct {
	real   chan T
	buf    []T
	cap    int
	closed bool
}

func MakeChan[T any](n int) *Chan[T] {
	return &Chan[T]{real: make(chan T, n), cap: n}
}

func (c *Chan[T]) Send(v T) {
	if !controlled {
		c.real <- v
		return
	}
	if aborted() {
		return
	}
	if c.cap == 0 {
		panic("vsync.Chan: unbuffered channels are not modelled")
	}
	point(fmt.Sprintf("send #%d", objID(c)), func() bool { return c.closed || len(c.buf) < c.cap })
	if c.closed {
		panic("send on closed channel")
	}
	c.buf = append(c.buf, v)
	after("send")
}

// Recv returns (value, ok) like `v, ok := <-c`.
func (c *Chan[T]) Recv() (T, bool) {
	if !controlled {
		v, ok := <-c.real
		return v, ok
	}
	var zero T
	if aborted() {
		return zero, false
	}
	point(fmt.Sprintf("recv #%d", objID(c)), func() bool { return c.closed || len(c.buf) > 0 })
	if len(c.buf) > 0 {
		v := c.buf[0]
		c.buf = c.buf[1:]
		return v, true
	}
	return zero, false
}

func (c *Chan[T]) RecvV() T { v, _ := c.Recv(); return v }

func (c *Chan[T]) Close() {
	if !controlled {
		close(c.real)
		return
	}
	if aborted() {
		return
	}
	point(fmt.Sprintf("close #%d", objID(c)), nil)
	if c.closed {
		panic("close of closed channel")
	}
	c.closed = true
	after("close")
}

func (c *Chan[T]) Len() int {
	if !controlled {
		return len(c.real)
	}
	return len(c.buf)
}
