// Package vsync is the replacement for package sync that the instrumenter
// (verif/instr, rewrite R2) substitutes into deepteams/webp at check time.
//
// It has two modes.  In pass-through mode every primitive delegates to the
// real package sync (except Pool, whose policy the harness owns).  In
// controlled mode (between Run's entry and exit) exactly one goroutine runs at
// a time and every synchronisation operation is a scheduling point: the
// harness-supplied chooser decides which enabled thread performs its pending
// operation next.  This is the CHESS-style controlled scheduler used by C10.
package vsync

import (
	"fmt"
	"runtime/debug"
	"sync"
)

// Chooser decides which of n (>=2) enabled threads runs next.  Alternative 0
// is always "keep running the current thread" when preemptCost is 1, and the
// lowest-id enabled thread when the current thread is blocked or finished
// (preemptCost 0).  It must return a value in [0,n).
type Chooser func(n int, preemptCost int, desc string) int

type thread struct {
	id      int
	wake    chan struct{}
	done    bool
	pending func() bool // nil: enabled; else enabled iff pending() is true
	desc    string
}

type sched struct {
	threads []*thread
	cur     *thread
	choose  Chooser
	steps   int
	horizon int
	aborted bool
	verdict string
	live    sync.WaitGroup // real: goroutines not yet unwound
	allDone chan struct{}
	trace   []string
	keep    bool
	points  int
	opCount map[string]int
	objIDs  map[any]int
}

// objID gives objects a stable per-run number (addresses differ between runs).
func objID(p any) int {
	s := sc
	if s == nil {
		return 0
	}
	if id, ok := s.objIDs[p]; ok {
		return id
	}
	id := len(s.objIDs) + 1
	s.objIDs[p] = id
	return id
}

type abortSignal struct{}

var (
	controlled bool
	sc         *sched
)

// Controlled reports whether the controlled scheduler is active.
func Controlled() bool { return controlled }

// Result of one controlled execution.
type Result struct {
	Verdict  string // "" ok; "deadlock: ..."; "livelock: ..."; "panic: ..."
	Steps    int
	Points   int // scheduling points with >=2 enabled threads
	Threads  int
	Trace    []string
	OpCounts map[string]int
}

// Run executes body as thread 0 under the controlled scheduler.
func Run(choose Chooser, horizon int, keepTrace bool, body func()) (res Result) {
	if controlled {
		panic("vsync.Run: nested")
	}
	s := &sched{choose: choose, horizon: horizon, allDone: make(chan struct{}), keep: keepTrace, opCount: map[string]int{}, objIDs: map[any]int{}}
	t0 := &thread{id: 0, wake: make(chan struct{}, 1)}
	s.threads = []*thread{t0}
	s.cur = t0
	sc = s
	controlled = true
	func() {
		defer func() {
			if r := recover(); r != nil {
				if _, ok := r.(abortSignal); !ok {
					s.fail(fmt.Sprintf("panic: %v\n%s", r, debug.Stack()))
				}
			}
		}()
		body()
	}()
	// thread 0 is finished: let the others run to completion.
	t0.done = true
	if !s.aborted {
		func() {
			defer func() {
				if r := recover(); r != nil {
					if _, ok := r.(abortSignal); !ok {
						panic(r)
					}
				}
			}()
			s.switchAway(t0, true)
		}()
	}
	if s.aborted {
		s.releaseAll()
	}
	s.live.Wait()
	controlled = false
	sc = nil
	return Result{Verdict: s.verdict, Steps: s.steps, Points: s.points, Threads: len(s.threads), Trace: s.trace, OpCounts: s.opCount}
}

func (s *sched) fail(v string) {
	if !s.aborted {
		s.aborted = true
		s.verdict = v
	}
}

// releaseAll wakes every parked thread so that it unwinds with abortSignal.
func (s *sched) releaseAll() {
	for _, t := range s.threads {
		if !t.done {
			select {
			case t.wake <- struct{}{}:
			default:
			}
		}
	}
}

func (s *sched) enabledList(me *thread) []*thread {
	var out []*thread
	if me != nil && !me.done && (me.pending == nil || me.pending()) {
		out = append(out, me)
	}
	for _, t := range s.threads {
		if t == me || t.done {
			continue
		}
		if t.pending == nil || t.pending() {
			out = append(out, t)
		}
	}
	return out
}

// switchAway is called by the running thread me at a scheduling point (or when
// it finishes).  It returns when me is scheduled again (never, if finished).
func (s *sched) switchAway(me *thread, finished bool) {
	if s.aborted {
		if finished {
			return
		}
		panic(abortSignal{})
	}
	s.steps++
	if s.horizon > 0 && s.steps > s.horizon {
		s.fail(fmt.Sprintf("livelock: horizon of %d scheduling steps exceeded", s.horizon))
		s.releaseAll()
		if finished {
			return
		}
		panic(abortSignal{})
	}
	en := s.enabledList(me)
	if len(en) == 0 {
		all := true
		for _, t := range s.threads {
			if !t.done {
				all = false
			}
		}
		if all {
			return
		}
		d := "deadlock: no enabled thread;"
		for _, t := range s.threads {
			if !t.done {
				d += fmt.Sprintf(" T%d blocked at %s;", t.id, t.desc)
			}
		}
		s.fail(d)
		s.releaseAll()
		if finished {
			return
		}
		panic(abortSignal{})
	}
	idx := 0
	if len(en) > 1 {
		cost := 0
		if en[0] == me {
			cost = 1
		}
		s.points++
		idx = s.choose(len(en), cost, me.desc)
		if idx < 0 || idx >= len(en) {
			panic(fmt.Sprintf("vsync: chooser returned %d of %d", idx, len(en)))
		}
	}
	next := en[idx]
	if s.keep {
		s.trace = append(s.trace, fmt.Sprintf("T%d:%s->T%d", me.id, me.desc, next.id))
	}
	if next == me {
		return
	}
	s.cur = next
	next.wake <- struct{}{}
	if finished {
		return
	}
	<-me.wake
	if s.aborted {
		panic(abortSignal{})
	}
}

// point announces the operation the current thread is about to perform and
// yields to the scheduler.  When it returns the operation is enabled and the
// thread performs it atomically (no other thread runs before its next point).
func point(desc string, enabled func() bool) {
	s := sc
	me := s.cur
	me.desc = desc
	me.pending = enabled
	s.opCount[opKind(desc)]++
	s.switchAway(me, false)
	me.pending = nil
}

func opKind(desc string) string {
	for i := 0; i < len(desc); i++ {
		if desc[i] == ' ' {
			return desc[:i]
		}
	}
	return desc
}

// Point is a scheduling point for code outside this package (vatomic).
func Point(desc string) { point(desc, nil) }

// AfterRelease adds a second scheduling point AFTER every operation that publishes or hands
// something over (Unlock, atomic writes, WaitGroup.Done, Signal/Broadcast, channel send/close;
// Pool.Put always has one). Scheduling only before synchronisation operations makes the block
// "release; plain accesses" atomic, which is sound for data-race-free code only: with these
// points another thread can run between a release and the plain reads/writes that follow it
// (use after release, publish before the write it guards).
var AfterRelease = true

func after(desc string) {
	if AfterRelease && controlled && sc != nil && !sc.aborted {
		point(desc+" done", nil)
	}
}

// After is after() for code outside this package (vatomic).
func After(desc string) { after(desc) }

// Aborted reports whether the current controlled run is being torn down;
// operations become no-ops so that deferred calls can unwind.
func aborted() bool { return sc != nil && sc.aborted }

// Go starts f as a new thread (rewrite target of `go` statements).
func Go(f func()) {
	if !controlled {
		go f()
		return
	}
	s := sc
	if s.aborted {
		return
	}
	t := &thread{id: len(s.threads), wake: make(chan struct{}, 1)}
	s.threads = append(s.threads, t)
	s.live.Add(1)
	go func() {
		defer s.live.Done()
		<-t.wake
		if s.aborted {
			t.done = true
			return
		}
		defer func() {
			r := recover()
			if r != nil {
				if _, ok := r.(abortSignal); !ok {
					s.fail(fmt.Sprintf("panic in T%d: %v\n%s", t.id, r, debug.Stack()))
					s.releaseAll()
				}
			}
			t.done = true
			if !s.aborted {
				func() {
					defer func() { recover() }()
					s.switchAway(t, true)
				}()
			}
			if s.aborted {
				s.releaseAll()
			}
		}()
		f()
	}()
	point(fmt.Sprintf("go T%d", t.id), nil)
}

// ObjID exposes objID to package vatomic.
func ObjID(p any) int { return objID(p) }
