// Package imgs builds the image alphabets (size class x content class x alpha
// class x Go image type).  Filler values are a fixed function of (seed, class,
// position): VERIF_SEED never changes which classes are enumerated.
package imgs

import (
	"fmt"
	"image"
	"image/color"
	"strconv"
	"strings"
)

type rng struct{ s uint64 }

func newRng(seed int64, salt string) *rng {
	h := uint64(1469598103934665603)
	for _, c := range []byte(fmt.Sprintf("%d/%s", seed, salt)) {
		h = (h ^ uint64(c)) * 1099511628211
	}
	if h == 0 {
		h = 1
	}
	return &rng{h}
}
func (r *rng) next() uint64 {
	r.s ^= r.s << 13
	r.s ^= r.s >> 7
	r.s ^= r.s << 17
	return r.s
}
func (r *rng) n(k int) int { return int(r.next()>>11) % k }

// Colour content classes.
var Contents = []string{"flat", "c2", "c3", "c4", "c5", "c16", "c17", "c256", "many", "gradient", "noise"}

// Alpha classes.
var Alphas = []string{"opaque", "binary", "few", "agradient", "transparent", "anoise", "late", "lastpx"}

var palette = func() []color.NRGBA {
	r := newRng(7, "palette")
	p := make([]color.NRGBA, 300)
	for i := range p {
		p[i] = color.NRGBA{uint8(r.n(256)), uint8(r.n(256)), uint8(r.n(256)), 255}
	}
	p[0] = color.NRGBA{0, 0, 0, 255}
	p[1] = color.NRGBA{255, 255, 255, 255}
	p[2] = color.NRGBA{255, 0, 0, 255}
	p[3] = color.NRGBA{0, 128, 255, 255}
	return p
}()

func ncolors(content string) int {
	if strings.HasPrefix(content, "k") { // "k<N>": exactly N colours, every one of them present
		if n, err := strconv.Atoi(content[1:]); err == nil && n >= 1 && n <= len(palette) {
			return n
		}
	}
	switch content {
	case "flat":
		return 1
	case "c2":
		return 2
	case "c3":
		return 3
	case "c4":
		return 4
	case "c5":
		return 5
	case "c16":
		return 16
	case "c17":
		return 17
	case "c256":
		return 256
	}
	return 0
}

// Make builds a w x h NRGBA picture of the given classes.
func Make(w, h int, content, alpha string, seed int64) *image.NRGBA {
	img := image.NewNRGBA(image.Rect(0, 0, w, h))
	r := newRng(seed, fmt.Sprintf("%s/%s/%d/%d", content, alpha, w, h))
	nc := ncolors(content)
	for y := 0; y < h; y++ {
		for x := 0; x < w; x++ {
			var c color.NRGBA
			switch {
			case nc > 0:
				var k int
				if strings.HasPrefix(content, "k") {
					// the first N pixels show the N colours once, the rest is noise over them
					if i := y*w + x; i < nc {
						k = i
					} else {
						k = r.n(nc)
					}
				} else if nc <= 5 {
					// checker / stripes mixed with scattered pixels
					k = (x + 2*y) % nc
					if r.n(5) == 0 {
						k = r.n(nc)
					}
				} else {
					k = r.n(nc)
				}
				c = palette[k]
			case content == "bandsH" || content == "bandsV":
				// two statistically different regions of unequal size: the first two thirds noise, the
				// last third a two-colour pattern (tile grids whose last row / column group is incomplete)
				last := y*3 >= h*2
				if content == "bandsV" {
					last = x*3 >= w*2
				}
				if last {
					c = palette[(x+y)%2]
				} else {
					c = color.NRGBA{uint8(r.n(256)), uint8(r.n(256)), uint8(r.n(256)), 255}
				}
			case content == "regionsV" || content == "regionsH" || content == "regions4":
				// large statistically different regions whose borders fall on
				// multiples of 16 px (entropy-image / tile-grid structure)
				var reg int
				switch content {
				case "regionsV":
					reg = x / 32 % 2
				case "regionsH":
					reg = y / 16 % 2
				default:
					reg = x/16%2 + 2*(y/16%2)
				}
				switch reg {
				case 0:
					c = color.NRGBA{uint8(r.n(256)), uint8(r.n(256)), uint8(r.n(256)), 255}
				case 1:
					c = palette[(x+y)%2]
				case 2:
					c = color.NRGBA{uint8(x * 3), uint8(y * 5), 40, 255}
				default:
					c = color.NRGBA{uint8(r.n(4) * 60), 200, uint8(r.n(2) * 255), 255}
				}
			case content == "patchwork":
				// 16x16 blocks, each pseudo-randomly flat or noisy: a noisy
				// per-macroblock complexity map
				bx, by := x/16, y/16
				hsh := uint32(bx*73856093) ^ uint32(by*19349663) ^ uint32(seed*83492791)
				hsh ^= hsh >> 13
				hsh *= 0x5bd1e995
				hsh ^= hsh >> 15
				if hsh%3 == 0 {
					c = color.NRGBA{uint8(r.n(256)), uint8(r.n(256)), uint8(r.n(256)), 255}
				} else {
					r.n(2)
					c = color.NRGBA{uint8(40 + 20*(hsh%7)), uint8(90 + 9*(hsh%11)), 120, 255}
				}
			case strings.HasPrefix(content, "noiseflat"):
				// grey noise everywhere except K consecutive flat 16x16 blocks ("noiseflat<K>", from
				// macroblock (1,1) rightwards): K of the picture's N macroblocks can be skipped, so the
				// skip probability (N-K)*255/N is swept through its upper range by varying K and N
				k, _ := strconv.Atoi(content[len("noiseflat"):])
				v := uint8(40 + r.n(176))
				bx, by := x/16, y/16
				mbw := (w + 15) / 16
				if i := by*mbw + bx - (mbw + 1); i >= 0 && i < k {
					v = 128
				}
				c = color.NRGBA{v, v, v, 255}
			case content == "tiebands":
				// alternating 8-pixel bands of many-colour noise and of one flat colour: searches that
				// minimise a cost meet exact ties (all residuals zero) right next to unique optima, so
				// whatever breaks the tie (a hint carried from a neighbour, a visiting order) shows
				n1, n2, n3 := r.n(256), r.n(256), r.n(256)
				if (y/8)%2 == 1 {
					c = color.NRGBA{uint8(30 + 7*(y/8)), uint8(200 - 5*(y/8)), 90, 255}
				} else {
					c = color.NRGBA{uint8(n1), uint8(n2), uint8(n3), 255}
				}
			case content == "ramptex":
				// correlated colour ramps with a mild texture, and a nearly flat dark band along the left
				// edge: cross-colour and predictor searches with many equal-cost candidates
				n := r.n(8)
				if x < w/8 {
					c = color.NRGBA{uint8(8 + y%3), 0, uint8(16 + n/4), 255}
				} else {
					g := (x*2 + y + n) & 0xff
					c = color.NRGBA{uint8((g*3/4 + y/2 + n/2) & 0xff), uint8(g), uint8((g/2 + x/3 + 40 + n) & 0xff), 255}
				}
			case content == "oneflat":
				// one regular fine texture everywhere except one flat 16x16 block: every
				// macroblock but one has the same complexity (skewed segment populations)
				v := uint8(98 + 60*(((x/2)+(y/2))%2))
				if (x*7+y*13)%5 == 0 {
					v += 20
				}
				if x/16 == 10 && y/16 == 10 {
					v = 128
				}
				c = color.NRGBA{v, v, v, 255}
			case content == "gradient":
				c = color.NRGBA{uint8(x * 255 / max1(w-1)), uint8(y * 255 / max1(h-1)), uint8((x + y) * 255 / max1(w+h-2)), 255}
			case content == "many":
				c = color.NRGBA{uint8(x*7 + y*3), uint8(x ^ y*5), uint8(x*y + r.n(8)), 255}
			default: // noise
				c = color.NRGBA{uint8(r.n(256)), uint8(r.n(256)), uint8(r.n(256)), 255}
			}
			switch alpha {
			case "opaque":
			case "binary":
				if (x/2+y/2)%2 == 0 || r.n(7) == 0 {
					c.A = 0
				}
			case "few":
				c.A = []uint8{0, 85, 170, 255}[(x+y+r.n(2))%4]
			case "agradient":
				c.A = uint8((x*255/max1(w-1) + y*255/max1(h-1)) / 2)
			case "transparent":
				c.A = 0
			case "anoise":
				c.A = uint8(r.n(256))
			case "late": // opaque except a patch in the last rows: the first non-opaque pixel comes late in raster order
				if y >= h-(h+3)/4 && x >= w/2 {
					c.A = uint8(40 + 17*((x+y)%11))
				}
			case "lastpx": // only the very last pixel is not opaque
				if y == h-1 && x == w-1 {
					c.A = 0
				}
			case "semi": // never 0, never 255
				c.A = uint8(1 + r.n(254))
			default:
				if strings.HasPrefix(alpha, "lv") { // "lv<N>": exactly N alpha levels 255, 254, ..., all present
					if n, err := strconv.Atoi(alpha[2:]); err == nil && n >= 1 && n <= 256 {
						if i := y*w + x; i < n {
							c.A = uint8(255 - i)
						} else {
							c.A = uint8(255 - r.n(n))
						}
					}
				}
			}
			img.SetNRGBA(x, y, c)
		}
	}
	return img
}

func max1(v int) int {
	if v < 1 {
		return 1
	}
	return v
}

// Go image types an NRGBA source can be presented as.
var Types = []string{"NRGBA", "RGBA", "NRGBA64", "Gray", "Paletted", "YCbCr", "generic"}

// Generic wraps an image so that no fast path can recognise it.
type Generic struct{ Img image.Image }

func (g Generic) ColorModel() color.Model { return g.Img.ColorModel() }
func (g Generic) Bounds() image.Rectangle { return g.Img.Bounds() }
func (g Generic) At(x, y int) color.Color { return g.Img.At(x, y) }

// As converts src to the named Go type.  The returned image is what is given
// to the encoder; the expected pixels are always obtained by reading it
// through color.NRGBAModel (see Expect).
func As(src *image.NRGBA, typ string) image.Image {
	b := src.Bounds()
	switch typ {
	case "NRGBA":
		return src
	case "RGBA":
		d := image.NewRGBA(b)
		for y := b.Min.Y; y < b.Max.Y; y++ {
			for x := b.Min.X; x < b.Max.X; x++ {
				d.Set(x, y, src.NRGBAAt(x, y))
			}
		}
		return d
	case "NRGBA64":
		d := image.NewNRGBA64(b)
		for y := b.Min.Y; y < b.Max.Y; y++ {
			for x := b.Min.X; x < b.Max.X; x++ {
				c := src.NRGBAAt(x, y)
				d.SetNRGBA64(x, y, color.NRGBA64{uint16(c.R) * 257, uint16(c.G) * 257, uint16(c.B) * 257, uint16(c.A) * 257})
			}
		}
		return d
	case "Gray":
		d := image.NewGray(b)
		for y := b.Min.Y; y < b.Max.Y; y++ {
			for x := b.Min.X; x < b.Max.X; x++ {
				d.Set(x, y, src.NRGBAAt(x, y))
			}
		}
		return d
	case "Paletted":
		pal := color.Palette{}
		seen := map[color.NRGBA]bool{}
		for y := b.Min.Y; y < b.Max.Y && len(pal) < 256; y++ {
			for x := b.Min.X; x < b.Max.X && len(pal) < 256; x++ {
				c := src.NRGBAAt(x, y)
				if !seen[c] {
					seen[c] = true
					pal = append(pal, c)
				}
			}
		}
		d := image.NewPaletted(b, pal)
		for y := b.Min.Y; y < b.Max.Y; y++ {
			for x := b.Min.X; x < b.Max.X; x++ {
				d.Set(x, y, src.NRGBAAt(x, y))
			}
		}
		return d
	case "YCbCr":
		d := image.NewYCbCr(b, image.YCbCrSubsampleRatio420)
		for y := b.Min.Y; y < b.Max.Y; y++ {
			for x := b.Min.X; x < b.Max.X; x++ {
				c := src.NRGBAAt(x, y)
				yy, cb, cr := color.RGBToYCbCr(c.R, c.G, c.B)
				d.Y[d.YOffset(x, y)] = yy
				d.Cb[d.COffset(x, y)] = cb
				d.Cr[d.COffset(x, y)] = cr
			}
		}
		return d
	case "generic":
		return Generic{src}
	}
	panic("imgs.As: " + typ)
}

// Expect returns the pixels of img read as non-premultiplied 8-bit RGBA, the
// standard library's definition (color.NRGBAModel).
func Expect(img image.Image) *image.NRGBA {
	b := img.Bounds()
	d := image.NewNRGBA(image.Rect(0, 0, b.Dx(), b.Dy()))
	for y := 0; y < b.Dy(); y++ {
		for x := 0; x < b.Dx(); x++ {
			c := color.NRGBAModel.Convert(img.At(b.Min.X+x, b.Min.Y+y)).(color.NRGBA)
			d.SetNRGBA(x, y, c)
		}
	}
	return d
}

// Diff compares two pictures read through color.NRGBAModel.  If
// transparentEqual, pixels that are alpha 0 in both compare equal.  It returns
// the number of differing pixels and a description of the first.
func Diff(want *image.NRGBA, got image.Image, transparentEqual bool) (int, string) {
	gb := got.Bounds()
	wb := want.Bounds()
	if gb.Dx() != wb.Dx() || gb.Dy() != wb.Dy() {
		return -1, fmt.Sprintf("size %dx%d, want %dx%d", gb.Dx(), gb.Dy(), wb.Dx(), wb.Dy())
	}
	n := 0
	first := ""
	gn, _ := got.(*image.NRGBA)
	for y := 0; y < wb.Dy(); y++ {
		for x := 0; x < wb.Dx(); x++ {
			w := want.NRGBAAt(wb.Min.X+x, wb.Min.Y+y)
			var g color.NRGBA
			if gn != nil {
				g = gn.NRGBAAt(gb.Min.X+x, gb.Min.Y+y)
			} else {
				g = color.NRGBAModel.Convert(got.At(gb.Min.X+x, gb.Min.Y+y)).(color.NRGBA)
			}
			if w == g {
				continue
			}
			if transparentEqual && w.A == 0 && g.A == 0 {
				continue
			}
			if n == 0 {
				first = fmt.Sprintf("(%d,%d) got %v want %v", x, y, g, w)
			}
			n++
		}
	}
	return n, first
}
